#!/bin/bash
# usage: verify_mut.sh <name> <worktree> <patch.diff> <demo_test.go> <demo-pkg-dir> [run-regex]
# Confirms in the scratch worktree: with the patch the project builds, the existing suite passes and the
# demo fails; without the patch the demo passes. Prints a summary line.
export GOFLAGS=-mod=mod GOPROXY=off GOSUMDB=off GOTOOLCHAIN=local
name=$1; wt=$2; patch=$3; demo=$4; pkg=$5; re=${6:-.}
cd $wt || exit 2
git checkout -q -- . ; git clean -fdq
git apply --check $patch || { echo "$name: PATCH DOES NOT APPLY"; exit 2; }
git apply $patch
go build ./... || { echo "$name: BUILD FAILS"; exit 2; }
suite=$(go test -vet=off -count=1 ./... 2>&1 | grep -E "^(FAIL|---|panic)" | head -5)
cp $demo $pkg/zz_demo_test.go
with=$(go test -vet=off -count=1 -run "$re" ./$pkg/ 2>&1 | tail -1)
git apply -R $patch
without=$(go test -vet=off -count=1 -run "$re" ./$pkg/ 2>&1 | tail -1)
rm -f $pkg/zz_demo_test.go
echo "$name: suite_with_patch=[${suite:-all ok}] demo_with_patch=[$with] demo_without=[$without]"
