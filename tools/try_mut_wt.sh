#!/bin/bash
# usage: try_mut_wt.sh <seeded-dir> <property> [tier]
# Runs a check against a scratch worktree of /repo with the seeded patch applied (VERIF_REPO), so that
# /repo itself and the registered evidence are never touched and several changes can be tried at once.
d=$(realpath $1); prop=$2; tier=${3:-quick}
name=$(basename $d)
wt=/tmp/wt/m-$name-$prop
git -C /repo worktree remove --force $wt 2>/dev/null
git -C /repo worktree add -q --detach $wt HEAD || exit 2
git -C $wt apply $d/patch.diff || { echo "patch does not apply"; git -C /repo worktree remove --force $wt; exit 2; }
out=/tmp/wt/try-$name-$prop.out
cd /verif && VERIF_REPO=$wt ./check $prop $tier > $out 2>&1; rc=$?
git -C /repo worktree remove --force $wt
echo "== $name vs $prop ($tier): exit=$rc"
grep -E "^(VIOLATION|INCONCLUSIVE|OK|KNOWN)" $out | cut -c1-230 | head -6
