#!/bin/bash
# usage: try_mut.sh <seeded-dir> <property> [tier]   -- applies the seeded patch to /repo, runs the check, undoes it
d=$1; prop=$2; tier=${3:-quick}
cd /repo && git diff --quiet || { echo "/repo dirty"; exit 2; }
git -C /repo apply $d/patch.diff || { echo "patch does not apply"; exit 2; }
cd /verif && ./check $prop $tier > /tmp/try_mut.out 2>&1; rc=$?
git -C /repo checkout -- .
grep -E "^(VIOLATION|INCONCLUSIVE|OK|KNOWN)" /tmp/try_mut.out | cut -c1-220 | head -8
echo "exit=$rc"
