package simple

import (
	"github.com/mit-pdos/go-journal/common"
	"github.com/mit-pdos/go-nfsd/nfstypes"
	"github.com/mit-pdos/go-nfsd/verifrt"
)

// C17: every simple.Nfs procedure against the specification "30 files of at most 4096 bytes", executed
// on the same symbolic arguments and the same symbolic disk; replies and (at a witness inode / byte)
// the abstract post-state must agree. Journal monitor: one append, durable before an OK reply.

type sW struct {
	nfs *Nfs
	d   *verifrt.Disk
}

// sWorld: a disk holding an initialised simple file system (inode i has Data = 514+i and Size <= 4096),
// empty log; the server is started with Recover (no re-initialisation).
func sWorld() *sW {
	d := verifrt.NewDisk("d", verifrt.Param("disksz", 1000))
	h0, h1 := d.Init(0), d.Init(1)
	for i := 0; i < 8; i++ {
		verifrt.Assume(h0[i] == h1[i])
	}
	verifrt.Assume(h0[2] == 0 && h0[3] == 0 && h0[4] == 0 && h0[5] == 0 && h0[6] == 0 && h0[7] == 0 && h0[1] < 16)
	return &sW{nfs: Recover(d), d: d}
}

func le64(b []byte, o uint64) uint64 {
	var v uint64
	for i := uint64(0); i < 8; i++ {
		v |= uint64(b[o+i]) << (8 * i)
	}
	return v
}

// size / data pointer of inode i on the current logical disk
func (w *sW) inode(i uint64) (uint64, uint64) {
	blk := w.d.Peek(common.LOGSIZE)
	return le64(blk, i*128), le64(blk, i*128+8)
}

// assumeInv: the simple representation invariant for inode i
func (w *sW) assumeInv(i uint64) {
	sz, dp := w.inode(i)
	verifrt.Assume(sz <= 4096)
	verifrt.Assume(dp == common.LOGSIZE+1+i)
}

func (w *sW) assertInv(i uint64, label string) {
	sz, dp := w.inode(i)
	verifrt.Assert(sz <= 4096, label+"-size")
	verifrt.Assert(dp == common.LOGSIZE+1+i, label+"-dataptr")
}

// content byte q of file i on the current logical disk
func (w *sW) byteAt(i, q uint64) byte {
	return w.d.Peek(common.LOGSIZE + 1 + i)[q]
}

// sFh: a handle of 0..64 arbitrary bytes; the inode number it denotes is returned (a handle whose length
// is not 16 denotes the invalid inode number 0). For lengths >= 8 the inode number is a representative: any of the 32
// table slots boundaries plus arbitrary large values.
func sFh() (nfstypes.Nfs_fh3, uint64, bool) {
	switch verifrt.Choose("fhkind", 0, 1, 2) {
	case 0:
		var x uint64
		if verifrt.Param("allinums", 0) == 1 {
			x = verifrt.Choose("inum", 0, 1, 2, 3, 4, 5, 6, 7, 8, 9, 10, 11, 12, 13, 14, 15, 16, 17, 18, 19, 20, 21, 22, 23, 24, 25, 26, 27, 28, 29, 30, 31, 32, 33)
		} else {
			x = verifrt.Choose("inum", 2, 0, 1, 31, 32)
		}
		return Fh{Ino: x}.MakeFh3(), x, true
	case 1:
		x := verifrt.U64("inum_big")
		verifrt.Assume(x >= 32)
		return Fh{Ino: x}.MakeFh3(), x, true
	}
	n := verifrt.U64("fhlen")
	verifrt.Assume(n <= 64 && n != 16)
	return nfstypes.Nfs_fh3{Data: verifrt.Bytes("fh", n)}, 0, true
}

func sValid(x uint64) bool { return x >= 2 && x < 32 }

// journal monitor: number of appends and whether every append was flushed before now
func sJournal() (uint64, bool) {
	var n, maxpos, flushed uint64
	for _, ev := range verifrt.Events() {
		if ev.Kind == verifrt.EvAppend && ev.A > 0 {
			n++
			maxpos = ev.B
		}
		if ev.Kind == verifrt.EvFlush && ev.A > flushed {
			flushed = ev.A
		}
	}
	return n, flushed >= maxpos
}

func sLocksReleased() bool {
	held := 0
	for _, ev := range verifrt.Events() {
		if ev.Kind == verifrt.EvAcquire {
			held++
		}
		if ev.Kind == verifrt.EvRelease {
			held--
		}
	}
	return held == 0
}

// unchanged asserts that file j (any j) and byte q of it are as before
func (w *sW) witness() (uint64, uint64, uint64, byte) {
	j := verifrt.Choose("wit_inum", 2, 3, 31)
	q := verifrt.U64("wit_byte")
	verifrt.Assume(q < 4096)
	w.assumeInv(j)
	sz, _ := w.inode(j)
	return j, q, sz, w.byteAt(j, q)
}

func VerifSimpleGetattr() {
	w := sWorld()
	h, x, okh := sFh()
	if okh && sValid(x) {
		w.assumeInv(x)
	}
	var s0 uint64
	if okh && sValid(x) {
		s0, _ = w.inode(x)
	}
	r := w.nfs.NFSPROC3_GETATTR(nfstypes.GETATTR3args{Object: h})
	na, _ := sJournal()
	verifrt.Assert(na == 0, "mon:getattr-no-append")
	verifrt.Assert(sLocksReleased(), "mon:locks-released")
	if !okh {
		verifrt.Cover("short")
		return
	}
	if x == common.ROOTINUM {
		verifrt.Assert(r.Status == nfstypes.NFS3_OK && r.Resok.Obj_attributes.Ftype == nfstypes.NF3DIR && r.Resok.Obj_attributes.Fileid == 1, "root-attr")
		verifrt.Cover("root")
	} else if !sValid(x) {
		verifrt.Assert(r.Status == nfstypes.NFS3ERR_INVAL, "invalid-inum-refused")
		verifrt.Cover("invalid")
	} else {
		verifrt.Assert(r.Status == nfstypes.NFS3_OK, "ok")
		a := r.Resok.Obj_attributes
		verifrt.Assert(a.Ftype == nfstypes.NF3REG && uint64(a.Size) == s0 && uint64(a.Fileid) == x, "attrs")
		verifrt.Cover("ok")
	}
}

func VerifSimpleRead() {
	w := sWorld()
	h, x, okh := sFh()
	off, cnt := verifrt.U64("off"), verifrt.U32("cnt")
	var s0 uint64
	if okh && sValid(x) {
		w.assumeInv(x)
		s0, _ = w.inode(x)
		bb := verifrt.Param("bbytes", 4)
		verifrt.Assume(off >= s0 || uint64(cnt) <= bb || s0-off <= bb)
	}
	r := w.nfs.NFSPROC3_READ(nfstypes.READ3args{File: h, Offset: nfstypes.Offset3(off), Count: nfstypes.Count3(cnt)})
	na, _ := sJournal()
	verifrt.Assert(na == 0, "mon:read-no-append")
	verifrt.Assert(sLocksReleased(), "mon:locks-released")
	if !okh {
		verifrt.Cover("short")
		return
	}
	if !sValid(x) {
		verifrt.Assert(r.Status == nfstypes.NFS3ERR_INVAL, "invalid-inum-refused")
		verifrt.Cover("invalid")
		return
	}
	verifrt.Assert(r.Status == nfstypes.NFS3_OK, "ok")
	if off >= s0 {
		verifrt.Assert(r.Resok.Count == 0 && len(r.Resok.Data) == 0 && r.Resok.Eof, "read-at-or-beyond-eof")
		verifrt.Cover("beyond")
		return
	}
	n := uint64(cnt)
	if n > s0-off {
		n = s0 - off
	}
	verifrt.Assert(uint64(r.Resok.Count) == n && uint64(len(r.Resok.Data)) == n, "count")
	verifrt.Assert(r.Resok.Eof == (off+n >= s0), "eof-flag")
	k := verifrt.U64("k")
	verifrt.Assume(k < n)
	verifrt.Assert(r.Resok.Data[k] == w.byteAt(x, off+k), "data")
	verifrt.Cover("data")
}

func VerifSimpleWrite() {
	w := sWorld()
	h, x, okh := sFh()
	off, cnt := verifrt.U64("off"), verifrt.U32("cnt")
	n := verifrt.U64("datalen")
	verifrt.Assume(n <= verifrt.Param("bbytes", 4))
	data := verifrt.Bytes("data", n)
	var s0 uint64
	if okh && sValid(x) {
		w.assumeInv(x)
		s0, _ = w.inode(x)
	}
	j, q, sj, bj := w.witness()
	r := w.nfs.NFSPROC3_WRITE(nfstypes.WRITE3args{File: h, Offset: nfstypes.Offset3(off), Count: nfstypes.Count3(cnt),
		Stable: nfstypes.Stable_how(verifrt.U32("stable")), Data: data})
	na, durable := sJournal()
	verifrt.Assert(sLocksReleased(), "mon:locks-released")
	if !okh {
		verifrt.Cover("short")
		return
	}
	sj1, _ := w.inode(j)
	bj1 := w.byteAt(j, q)
	refOK := sValid(x) && uint64(cnt) == n && off+uint64(cnt) >= off && off+uint64(cnt) <= 4096 && off <= s0
	if !refOK {
		verifrt.Assert(r.Status != nfstypes.NFS3_OK, "refused-when-spec-refuses")
		if !sValid(x) {
			verifrt.Assert(r.Status == nfstypes.NFS3ERR_INVAL, "invalid-inum-refused")
		}
		verifrt.Assert(na == 0, "mon:failed-write-no-append")
		verifrt.Assert(sj1 == sj && bj1 == bj, "failed-write-no-effect")
		verifrt.Cover("refused")
		return
	}
	verifrt.Assert(r.Status == nfstypes.NFS3_OK, "accepted-when-spec-accepts")
	verifrt.Assert(uint64(r.Resok.Count) == n && r.Resok.Committed == nfstypes.FILE_SYNC, "reply-count-committed")
	verifrt.Assert(na <= 1 && (n == 0 || na == 1) && durable, "mon:one-durable-append")
	ns := s0
	if off+n > ns {
		ns = off + n
	}
	if j == x {
		verifrt.Assert(sj1 == ns, "size-after-write")
		if q >= off && q < off+n {
			verifrt.Assert(bj1 == data[q-off], "written-bytes")
		} else {
			verifrt.Assert(bj1 == bj, "other-bytes-unchanged")
		}
		w.assertInv(x, "inv")
	} else {
		verifrt.Assert(sj1 == sj && bj1 == bj, "other-files-unchanged")
	}
	verifrt.Cover("ok")
}

func VerifSimpleSetattr() {
	w := sWorld()
	h, x, okh := sFh()
	set := verifrt.Bool("size_set")
	ns := verifrt.U64("newsize")
	var s0 uint64
	if okh && sValid(x) {
		w.assumeInv(x)
		s0, _ = w.inode(x)
		bb := verifrt.Param("bbytes", 4)
		verifrt.Assume(!set || ns <= s0 || ns-s0 <= bb || ns > 4096)
	}
	j, q, sj, bj := w.witness()
	var a nfstypes.Sattr3
	a.Size.Set_it = set
	a.Size.Size = nfstypes.Size3(ns)
	a.Mode.Set_it = verifrt.Bool("mode_set")
	a.Atime.Set_it = nfstypes.Time_how(verifrt.U32("atime_how"))
	r := w.nfs.NFSPROC3_SETATTR(nfstypes.SETATTR3args{Object: h, New_attributes: a})
	na, durable := sJournal()
	verifrt.Assert(sLocksReleased(), "mon:locks-released")
	if !okh {
		verifrt.Cover("short")
		return
	}
	sj1, _ := w.inode(j)
	bj1 := w.byteAt(j, q)
	if !sValid(x) {
		verifrt.Assert(r.Status == nfstypes.NFS3ERR_INVAL, "invalid-inum-refused")
		verifrt.Assert(na == 0 && sj1 == sj && bj1 == bj, "refused-no-effect")
		verifrt.Cover("invalid")
		return
	}
	if set && ns > 4096 {
		verifrt.Assert(r.Status != nfstypes.NFS3_OK, "size-beyond-4096-refused")
		verifrt.Assert(na == 0 && sj1 == sj && bj1 == bj, "refused-no-effect")
		verifrt.Cover("toolarge")
		return
	}
	verifrt.Assert(r.Status == nfstypes.NFS3_OK, "accepted")
	verifrt.Assert(na <= 1 && durable, "mon:one-durable-append")
	if !set {
		verifrt.Assert(sj1 == sj && bj1 == bj, "no-size-no-change")
		verifrt.Cover("nosize")
		return
	}
	if j == x {
		verifrt.Assert(sj1 == ns, "size-set")
		if ns > s0 && q >= s0 && q < ns {
			verifrt.Assert(bj1 == 0, "grown-region-zero")
		} else {
			verifrt.Assert(bj1 == bj, "bytes-unchanged")
		}
		w.assertInv(x, "inv")
	} else {
		verifrt.Assert(sj1 == sj && bj1 == bj, "other-files-unchanged")
	}
	verifrt.Cover("ok")
}

// the remaining procedures: fixed answers, no effect
func VerifSimpleOther() {
	w := sWorld()
	h, _, _ := sFh()
	verifrt.Assert(w.nfs.NFSPROC3_ACCESS(nfstypes.ACCESS3args{Object: h}).Status == nfstypes.NFS3_OK, "access")
	verifrt.Assert(w.nfs.NFSPROC3_CREATE(nfstypes.CREATE3args{Where: nfstypes.Diropargs3{Dir: h}}).Status == nfstypes.NFS3ERR_NOTSUPP, "create")
	verifrt.Assert(w.nfs.NFSPROC3_REMOVE(nfstypes.REMOVE3args{Object: nfstypes.Diropargs3{Dir: h}}).Status == nfstypes.NFS3ERR_NOTSUPP, "remove")
	fi := w.nfs.NFSPROC3_FSINFO(nfstypes.FSINFO3args{Fsroot: h})
	verifrt.Assert(fi.Status == nfstypes.NFS3_OK && fi.Resok.Wtmax == 4096 && fi.Resok.Maxfilesize == 4096, "fsinfo-limits")
	la := w.nfs.NFSPROC3_LOOKUP(nfstypes.LOOKUP3args{What: nfstypes.Diropargs3{Dir: h, Name: "a"}})
	verifrt.Assert(la.Status == nfstypes.NFS3_OK && MakeFh(la.Resok.Object).Ino == 2, "lookup-a")
	lz := w.nfs.NFSPROC3_LOOKUP(nfstypes.LOOKUP3args{What: nfstypes.Diropargs3{Dir: h, Name: "zz"}})
	verifrt.Assert(lz.Status == nfstypes.NFS3ERR_NOENT, "lookup-unknown")
	na, _ := sJournal()
	verifrt.Assert(na == 0, "mon:no-append")
	verifrt.Cover("end")
}

func VerifSimpleCommit() {
	w := sWorld()
	h, x, okh := sFh()
	r := w.nfs.NFSPROC3_COMMIT(nfstypes.COMMIT3args{File: h})
	if !okh {
		verifrt.Cover("short")
		return
	}
	verifrt.Assert((r.Status == nfstypes.NFS3_OK) == sValid(x), "commit-status")
	verifrt.Assert(sLocksReleased(), "mon:locks-released")
	verifrt.Cover("end")
}
