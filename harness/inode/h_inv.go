package inode

import (
	"github.com/goose-lang/primitive/disk"
	"github.com/mit-pdos/go-journal/common"
	"github.com/mit-pdos/go-journal/util"
	"github.com/mit-pdos/go-nfsd/nfstypes"
	"github.com/mit-pdos/go-nfsd/verifrt"
)

// VerifBlks exposes the block-pointer array to harnesses of other packages.
func (ip *Inode) VerifBlks() []common.Bnum { return ip.blks }

// VerifAssumeInvLocal assumes the inode-local part of the representation invariant (I1, range part of
// I2, I4 for the ten slots). dirSlots bounds directory sizes (K_slots), lnkMax bounds symlink sizes.
func VerifAssumeInvLocal(ip *Inode, dataStart, max uint64, dirSlots, lnkMax uint64) {
	k := ip.Kind
	verifrt.Assume(k == NF3FREE || k == nfstypes.NF3REG || k == nfstypes.NF3DIR || k == nfstypes.NF3LNK)
	// a link is a directory entry naming the inode: at most one per inode of the table
	verifrt.Assume(k == NF3FREE || (ip.Nlink >= 1 && ip.Nlink <= 40000))
	verifrt.Assume(ip.Size <= MaxFileSize())
	nblk := util.RoundUp(ip.Size, disk.BlockSize)
	// the extent: blocks below max(ShrinkSize, blocks of Size) may be present. (Write grows Size without
	// touching ShrinkSize, so ShrinkSize < nblk is reachable and means "not shrinking".)
	ext := ip.ShrinkSize
	if nblk > ext {
		ext = nblk
	}
	verifrt.Assume(ip.ShrinkSize <= NDIRECT+NBLKBLK+NBLKBLK*NBLKBLK)
	verifrt.Assume(k != nfstypes.NF3DIR || (ip.Size%128 == 0 && ip.Size >= 256 && ip.Size <= dirSlots*128))
	verifrt.Assume(k != nfstypes.NF3LNK || ip.Size <= lnkMax)
	verifrt.Assume(k != NF3FREE || ip.Size == 0)
	for i := uint64(0); i < NBLKINO; i++ {
		b := ip.blks[i]
		verifrt.Assume(b == 0 || (b >= dataStart && b < max))
		// I4: no pointer at or beyond the extent
		if i < NDIRECT {
			verifrt.Assume(b == 0 || i < ext)
		}
	}
	verifrt.Assume(ip.blks[INDIRECT] == 0 || ext > NDIRECT)
	verifrt.Assume(ip.blks[DINDIRECT] == 0 || ext > NDIRECT+NBLKBLK)
}
