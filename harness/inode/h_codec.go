package inode

import (
	"github.com/mit-pdos/go-journal/buf"
	"github.com/mit-pdos/go-journal/common"
	"github.com/mit-pdos/go-nfsd/nfstypes"
	"github.com/mit-pdos/go-nfsd/verifrt"
)

// VerifInodeRoundTrip: C10 Decode(Encode(ip)) = ip and Encode(Decode(b)) = b.
func VerifInodeRoundTrip() {
	ip := new(Inode)
	ip.Kind = nfstypes.Ftype3(verifrt.U32("kind"))
	ip.Nlink = verifrt.U32("nlink")
	ip.Gen = verifrt.U64("gen")
	ip.Size = verifrt.U64("size")
	ip.ShrinkSize = verifrt.U64("ssz")
	ip.Atime.Seconds = nfstypes.Uint32(verifrt.U32("as"))
	ip.Atime.Nseconds = nfstypes.Uint32(verifrt.U32("an"))
	ip.Mtime.Seconds = nfstypes.Uint32(verifrt.U32("ms"))
	ip.Mtime.Nseconds = nfstypes.Uint32(verifrt.U32("mn"))
	ip.blks = verifrt.Words("blks", NBLKINO)
	b := ip.Encode()
	verifrt.Assert(uint64(len(b)) == common.INODESZ, "len128")
	ip2 := Decode(&buf.Buf{Data: b}, 7)
	verifrt.Assert(ip2.Inum == 7, "inum")
	verifrt.Assert(ip2.Kind == ip.Kind && ip2.Nlink == ip.Nlink && ip2.Gen == ip.Gen, "hdr")
	verifrt.Assert(ip2.Size == ip.Size && ip2.ShrinkSize == ip.ShrinkSize, "sizes")
	verifrt.Assert(ip2.Atime == ip.Atime && ip2.Mtime == ip.Mtime, "times")
	verifrt.Assert(uint64(len(ip2.blks)) == NBLKINO, "nblks")
	j := verifrt.U64("j")
	verifrt.Assume(j < NBLKINO)
	verifrt.Assert(ip2.blks[j] == ip.blks[j], "blks")
	// other direction: arbitrary 128 bytes
	raw := verifrt.Bytes("raw", 128)
	ip3 := Decode(&buf.Buf{Data: raw}, 9)
	e3 := ip3.Encode()
	k := verifrt.U64("k")
	verifrt.Assume(k < 128)
	verifrt.Assert(e3[k] == raw[k], "bytes")
	verifrt.Cover("end")
}
