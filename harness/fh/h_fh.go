package fh

import (
	"github.com/mit-pdos/go-nfsd/nfstypes"
	"github.com/mit-pdos/go-nfsd/verifrt"
)

// VerifFhRoundTrip: C10/C08 handle encode/decode are inverse.
func VerifFhRoundTrip() {
	f := Fh{Ino: verifrt.U64("ino"), Gen: verifrt.U64("gen")}
	h3 := f.MakeFh3()
	verifrt.Assert(len(h3.Data) == 16, "len16")
	g := MakeFh(h3)
	verifrt.Assert(g.Ino == f.Ino, "ino")
	verifrt.Assert(g.Gen == f.Gen, "gen")
	f2 := Fh{Ino: verifrt.U64("ino2"), Gen: verifrt.U64("gen2")}
	verifrt.Assert(Equal(h3, f2.MakeFh3()) == (f.Ino == f2.Ino && f.Gen == f2.Gen), "injective")
	h := nfstypes.Nfs_fh3{Data: verifrt.Bytes("h", 16)}
	h2 := MakeFh(h).MakeFh3()
	verifrt.Assert(Equal(h, h2), "roundtrip16")
	r := MakeFh(MkRootFh3())
	verifrt.Assert(r.Ino == 1 && r.Gen == 1, "root")
	verifrt.Cover("end")
}

// VerifFhAnyLen: C11 a handle of any length 0..64 never panics the decoder.
func VerifFhAnyLen() {
	n := verifrt.U64("n")
	verifrt.Assume(n <= 64)
	h := nfstypes.Nfs_fh3{Data: verifrt.Bytes("h", n)}
	MakeFh(h)
	verifrt.Cover("end")
}
