package super

import (
	"github.com/mit-pdos/go-journal/common"
	"github.com/mit-pdos/go-nfsd/verifrt"
)

// VerifLayout: C15 layout arithmetic for every size below 2^40.
func VerifLayout() {
	sz := verifrt.U64("sz")
	verifrt.Assume(sz < 1<<40)
	fs := MkFsSuper(verifrt.NewDisk("d", sz))
	a, b, c, d := fs.BitmapBlockStart(), fs.BitmapInodeStart(), fs.InodeStart(), fs.DataStart()
	verifrt.Assert(a == common.LOGSIZE, "log-then-bitmap")
	verifrt.Assert(a < b, "bitmap-nonempty")
	verifrt.Assert(b < c, "ibitmap-nonempty")
	verifrt.Assert(c < d, "itable-nonempty")
	verifrt.Assert(b-a == fs.NBlockBitmap && c-b == fs.NInodeBitmap, "region-sizes")
	verifrt.Assert(fs.NBlockBitmap*common.NBITBLOCK > sz, "bitmap-covers-disk")
	verifrt.Assert((fs.NBlockBitmap-1)*common.NBITBLOCK <= sz, "bitmap-not-oversized")
	verifrt.Assert(uint64(fs.NInode()) == fs.NInodeBitmap*common.NBITBLOCK, "ibitmap-covers-inodes")
	verifrt.Assert(uint64(fs.MaxBnum()) == sz, "maxbnum-is-size")
	x := verifrt.U64("x")
	verifrt.Assume(x < uint64(fs.NInode()))
	ad := fs.Inum2Addr(x)
	verifrt.Assert(ad.Blkno >= c && ad.Blkno < d, "inode-in-table")
	verifrt.Assert(ad.Off%8 == 0 && ad.Off+common.INODESZ*8 <= common.NBITBLOCK, "inode-in-block")
	y := verifrt.U64("y")
	verifrt.Assume(y < uint64(fs.NInode()) && y != x)
	ay := fs.Inum2Addr(y)
	verifrt.Assert(ay.Blkno != ad.Blkno || ay.Off >= ad.Off+common.INODESZ*8 || ad.Off >= ay.Off+common.INODESZ*8, "inodes-disjoint")
	bn := verifrt.U64("bn")
	verifrt.Assert(fs.Block2addr(bn).Blkno == bn && fs.Block2addr(bn).Off == 0, "block2addr")
	verifrt.Cover("end")
}
