package nfstypes

import (
	"github.com/mit-pdos/go-nfsd/verifrt"
	"github.com/zeldovich/go-rpcgen/rfc1813"
	"github.com/zeldovich/go-rpcgen/xdr"
)

// vStrLen: representative lengths of strings / opaques (bound X_xdr): empty, one short of a word, a
// word, one more than a word; the quick tier uses two of them.
func vStrLen(name string) uint64 {
	if verifrt.Param("xdrlens", 2) >= 4 {
		return verifrt.Choose(name+"#len", 0, 3, 4, 5)
	}
	return verifrt.Choose(name+"#len", 0, 5)
}

func vBytesEq(a, b []byte) bool {
	if len(a) != len(b) {
		return false
	}
	eq := true
	for i := range a {
		eq = eq && a[i] == b[i]
	}
	return eq
}

// ---- bounds declared in the .x file: a handle longer than 64 bytes must be refused by the encoder and
// the decoder
func VerifXdrFhBound() {
	n := verifrt.Choose("n", 64, 65, 63, 0)
	h := Nfs_fh3{Data: verifrt.Bytes("h", n)}
	b, err := xdr.EncodeBuf(&h)
	verifrt.Assert((err == nil) == (n <= 64), "encode-refuses-oversized-handle")
	if err == nil {
		verifrt.Assert(uint64(len(b)) == 4+(n+3)/4*4, "length-word-plus-padded-data")
		verifrt.Assert(b[0] == 0 && b[1] == 0 && b[2] == 0 && uint64(b[3]) == n, "big-endian-length-word")
	}
	// decoder: a length word above 64 is rejected
	m := verifrt.U32("m")
	verifrt.Assume(m > 64)
	msg := make([]byte, 80)
	msg[0], msg[1], msg[2], msg[3] = byte(m>>24), byte(m>>16), byte(m>>8), byte(m)
	var h2 Nfs_fh3
	verifrt.Assert(xdr.DecodeBuf(msg, &h2) != nil, "decode-refuses-oversized-handle")
	verifrt.Cover("end")
}

// ---- dispatch: every registration's handler invokes the method of its own procedure number

type vRecH struct{ last *uint32 }

func (r vRecH) NFSPROC3_NULL()                                   { *r.last = 0 }
func (r vRecH) NFSPROC3_GETATTR(GETATTR3args) (x GETATTR3res)    { *r.last = 1; return }
func (r vRecH) NFSPROC3_SETATTR(SETATTR3args) (x SETATTR3res)    { *r.last = 2; return }
func (r vRecH) NFSPROC3_LOOKUP(LOOKUP3args) (x LOOKUP3res)       { *r.last = 3; return }
func (r vRecH) NFSPROC3_ACCESS(ACCESS3args) (x ACCESS3res)       { *r.last = 4; return }
func (r vRecH) NFSPROC3_READLINK(READLINK3args) (x READLINK3res) { *r.last = 5; return }
func (r vRecH) NFSPROC3_READ(READ3args) (x READ3res)             { *r.last = 6; return }
func (r vRecH) NFSPROC3_WRITE(WRITE3args) (x WRITE3res)          { *r.last = 7; return }
func (r vRecH) NFSPROC3_CREATE(CREATE3args) (x CREATE3res)       { *r.last = 8; return }
func (r vRecH) NFSPROC3_MKDIR(MKDIR3args) (x MKDIR3res)          { *r.last = 9; return }
func (r vRecH) NFSPROC3_SYMLINK(SYMLINK3args) (x SYMLINK3res)    { *r.last = 10; return }
func (r vRecH) NFSPROC3_MKNOD(MKNOD3args) (x MKNOD3res)          { *r.last = 11; return }
func (r vRecH) NFSPROC3_REMOVE(REMOVE3args) (x REMOVE3res)       { *r.last = 12; return }
func (r vRecH) NFSPROC3_RMDIR(RMDIR3args) (x RMDIR3res)          { *r.last = 13; return }
func (r vRecH) NFSPROC3_RENAME(RENAME3args) (x RENAME3res)       { *r.last = 14; return }
func (r vRecH) NFSPROC3_LINK(LINK3args) (x LINK3res)             { *r.last = 15; return }
func (r vRecH) NFSPROC3_READDIR(READDIR3args) (x READDIR3res)    { *r.last = 16; return }
func (r vRecH) NFSPROC3_READDIRPLUS(READDIRPLUS3args) (x READDIRPLUS3res) {
	*r.last = 17
	return
}
func (r vRecH) NFSPROC3_FSSTAT(FSSTAT3args) (x FSSTAT3res)       { *r.last = 18; return }
func (r vRecH) NFSPROC3_FSINFO(FSINFO3args) (x FSINFO3res)       { *r.last = 19; return }
func (r vRecH) NFSPROC3_PATHCONF(PATHCONF3args) (x PATHCONF3res) { *r.last = 20; return }
func (r vRecH) NFSPROC3_COMMIT(COMMIT3args) (x COMMIT3res)       { *r.last = 21; return }

func (r vRecH) MOUNTPROC3_NULL()                        { *r.last = 100 }
func (r vRecH) MOUNTPROC3_MNT(Dirpath3) (x Mountres3)   { *r.last = 101; return }
func (r vRecH) MOUNTPROC3_DUMP() (x Mountopt3)          { *r.last = 102; return }
func (r vRecH) MOUNTPROC3_UMNT(Dirpath3)                { *r.last = 103 }
func (r vRecH) MOUNTPROC3_UMNTALL()                     { *r.last = 104 }
func (r vRecH) MOUNTPROC3_EXPORT() (x Exportsopt3)      { *r.last = 105; return }

func VerifXdrDispatch() {
	var last uint32
	h := vRecH{last: &last}
	regs := NFS_PROGRAM_NFS_V3_regs(h)
	verifrt.Assert(len(regs) == 22, "22-nfs-procedures-registered")
	seen := make([]bool, 22)
	for _, r := range regs {
		verifrt.Assert(r.Prog == 100003 && r.Vers == 3, "nfs-program-and-version")
		verifrt.Assert(r.Proc < 22, "nfs-procedure-number-in-range")
		last = 999
		_, err := r.Handler(xdr.MakeReader(make([]byte, 256)))
		verifrt.Assert(err == nil, "zero-message-decodes")
		verifrt.Assert(last == r.Proc, "procedure-number-reaches-its-own-handler")
		if r.Proc < 22 {
			verifrt.Assert(!seen[r.Proc], "procedure-registered-once")
			seen[r.Proc] = true
		}
		// a message too short for the arguments is refused before the handler runs
		if r.Proc != 0 {
			last = 999
			_, err2 := r.Handler(xdr.MakeReader(make([]byte, 2)))
			verifrt.Assert(err2 != nil && last == 999, "truncated-arguments-never-reach-the-handler")
		}
	}
	mregs := MOUNT_PROGRAM_MOUNT_V3_regs(h)
	verifrt.Assert(len(mregs) == 6, "6-mount-procedures-registered")
	mseen := make([]bool, 6)
	for _, r := range mregs {
		verifrt.Assert(r.Prog == 100005 && r.Vers == 3, "mount-program-and-version")
		verifrt.Assert(r.Proc < 6, "mount-procedure-number-in-range")
		last = 999
		_, err := r.Handler(xdr.MakeReader(make([]byte, 256)))
		verifrt.Assert(err == nil, "zero-message-decodes")
		verifrt.Assert(last == 100+r.Proc, "mount-procedure-number-reaches-its-own-handler")
		if r.Proc < 6 {
			verifrt.Assert(!mseen[r.Proc], "mount-procedure-registered-once")
			mseen[r.Proc] = true
		}
	}
	// RFC 1813 procedure numbers
	verifrt.Assert(NFSPROC3_NULL == 0 && NFSPROC3_GETATTR == 1 && NFSPROC3_SETATTR == 2 && NFSPROC3_LOOKUP == 3 &&
		NFSPROC3_ACCESS == 4 && NFSPROC3_READLINK == 5 && NFSPROC3_READ == 6 && NFSPROC3_WRITE == 7 && NFSPROC3_CREATE == 8 &&
		NFSPROC3_MKDIR == 9 && NFSPROC3_SYMLINK == 10 && NFSPROC3_MKNOD == 11 && NFSPROC3_REMOVE == 12 && NFSPROC3_RMDIR == 13 &&
		NFSPROC3_RENAME == 14 && NFSPROC3_LINK == 15 && NFSPROC3_READDIR == 16 && NFSPROC3_READDIRPLUS == 17 &&
		NFSPROC3_FSSTAT == 18 && NFSPROC3_FSINFO == 19 && NFSPROC3_PATHCONF == 20 && NFSPROC3_COMMIT == 21, "rfc1813-procedure-numbers")
	verifrt.Assert(MOUNTPROC3_NULL == 0 && MOUNTPROC3_MNT == 1 && MOUNTPROC3_DUMP == 2 && MOUNTPROC3_UMNT == 3 &&
		MOUNTPROC3_UMNTALL == 4 && MOUNTPROC3_EXPORT == 5, "rfc1813-mount-procedure-numbers")
	verifrt.Cover("end")
}

// vU32s: a list of 0..2 symbolic 32-bit words
func vU32s(name string) []uint32 {
	n := verifrt.Choose(name+"#n", 0, 2)
	out := make([]uint32, n)
	for i := range out {
		out[i] = verifrt.U32(name)
	}
	return out
}

// ---- declared maximum lengths of the variable-length types (the .x file: filename3<>, nfspath3<>,
// opaque data<> unbounded; nfs_fh3 opaque<64>; MOUNT fhandle3<64>, dirpath<1024>, name<255>): at the
// lengths around every bound that occurs in the protocol, nfstypes and rfc1813 agree on whether the value
// can be encoded, on the bytes, and the bytes decode back. (The per-type harnesses use short
// representative lengths; a bound changed by a constant is only visible at these lengths.)
func VerifXdrBounds() {
	n := verifrt.Choose("n", 1025, 64, 65, 255, 256, 1024, 4096)
	first := verifrt.U8("first")
	raw := make([]byte, n)
	raw[0] = first
	s := string(raw)
	var mine, ref []byte
	var e1, e2 error
	which := verifrt.Choose("type", 0, 1, 2, 3, 4, 5, 6)
	switch which {
	case 0:
		a, b := Filename3(s), rfc1813.Filename3(s)
		mine, e1 = xdr.EncodeBuf(&a)
		ref, e2 = xdr.EncodeBuf(&b)
	case 1:
		a, b := Nfspath3(s), rfc1813.Nfspath3(s)
		mine, e1 = xdr.EncodeBuf(&a)
		ref, e2 = xdr.EncodeBuf(&b)
	case 2:
		a, b := Dirpath3(s), rfc1813.Dirpath3(s)
		mine, e1 = xdr.EncodeBuf(&a)
		ref, e2 = xdr.EncodeBuf(&b)
	case 3:
		a, b := Name3(s), rfc1813.Name3(s)
		mine, e1 = xdr.EncodeBuf(&a)
		ref, e2 = xdr.EncodeBuf(&b)
	case 4:
		a, b := Fhandle3(raw), rfc1813.Fhandle3(raw)
		mine, e1 = xdr.EncodeBuf(&a)
		ref, e2 = xdr.EncodeBuf(&b)
	case 5:
		a, b := Nfs_fh3{Data: raw}, rfc1813.Nfs_fh3{Data: raw}
		mine, e1 = xdr.EncodeBuf(&a)
		ref, e2 = xdr.EncodeBuf(&b)
	case 6:
		a, b := WRITE3args{Data: raw}, rfc1813.WRITE3args{Data: raw}
		mine, e1 = xdr.EncodeBuf(&a)
		ref, e2 = xdr.EncodeBuf(&b)
	}
	verifrt.Assert((e1 == nil) == (e2 == nil), "encodable-exactly-when-rfc1813-says-so")
	if e1 == nil && e2 == nil {
		verifrt.Assert(vBytesEq(mine, ref), "encoding-equals-rfc1813-at-the-bound")
		var derr error
		var back uint64
		switch which {
		case 0:
			var d Filename3
			derr = xdr.DecodeBuf(ref, &d)
			back = uint64(len(d))
		case 1:
			var d Nfspath3
			derr = xdr.DecodeBuf(ref, &d)
			back = uint64(len(d))
		case 2:
			var d Dirpath3
			derr = xdr.DecodeBuf(ref, &d)
			back = uint64(len(d))
		case 3:
			var d Name3
			derr = xdr.DecodeBuf(ref, &d)
			back = uint64(len(d))
		case 4:
			var d Fhandle3
			derr = xdr.DecodeBuf(ref, &d)
			back = uint64(len(d))
		case 5:
			var d Nfs_fh3
			derr = xdr.DecodeBuf(ref, &d)
			back = uint64(len(d.Data))
		case 6:
			var d WRITE3args
			derr = xdr.DecodeBuf(ref, &d)
			back = uint64(len(d.Data))
		}
		verifrt.Assert(derr == nil && back == n, "reference-encoding-decodes-back")
		verifrt.Cover("accepted")
	} else {
		verifrt.Cover("refused")
	}
	verifrt.Cover("end")
}
