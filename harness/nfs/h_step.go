package nfs

import (
	"github.com/mit-pdos/go-journal/addr"
	"github.com/mit-pdos/go-journal/jrnl"
	"github.com/mit-pdos/go-nfsd/dir"
	"github.com/mit-pdos/go-nfsd/fh"
	"github.com/mit-pdos/go-nfsd/fstxn"
	"github.com/mit-pdos/go-nfsd/inode"
	"github.com/mit-pdos/go-nfsd/nfstypes"
	"github.com/mit-pdos/go-nfsd/verifrt"
)

// ---- event monitors shared by the step harnesses

type vMon struct {
	appends    uint64 // non-empty journal appends made by the request itself
	helpers    uint64 // appends made by DoShrink while finishing a pending free (self-contained transactions)
	refused    uint64
	durable    bool // every append was flushed before the reply
	ascending  bool // every lock was acquired above all locks held
	twoPhase   bool // no lock acquired after a release within one transaction
	relAfter   bool // every release follows the transaction's append (or the transaction appended nothing)
	balanced   bool // every number allocated was handed back (meaningful on failure paths)
	spawned    uint64
	rawWrites  uint64
	acquires   uint64
	heldAtEnd  uint64
}

const (
	vMarkShrinkBegin = 100
	vMarkShrinkEnd   = 101
	vMarkOpBegin     = 102
	vMarkOpEnd       = 103
)

// vLockset checks D1/D3 (C03) = lockset discipline for cached inodes (C14): every access to a field of
// an inode object between the start and the end of the request happens while the request holds that
// inode's lock. Returns the number of accesses checked.
func vLockset(label string) uint64 {
	evs := verifrt.Events()
	start, end := 0, len(evs)
	for i, ev := range evs {
		if ev.Kind == verifrt.EvMark && ev.A == vMarkOpBegin {
			start = i
		}
		if ev.Kind == verifrt.EvMark && ev.A == vMarkOpEnd {
			end = i
		}
	}
	var n uint64
	for i := start; i < end; i++ {
		ev := evs[i]
		if ev.Kind == verifrt.EvAccess {
			// recorded by the engine only when the access is not trivially covered: A = 1 iff the
			// inode's number (C) is among the locks held at that moment
			verifrt.Assert(ev.A == 1, label)
			n++
		}
	}
	return n
}

func vMonitor() vMon {
	m := vMon{durable: true, ascending: true, twoPhase: true, relAfter: true, balanced: true}
	evs := verifrt.Events()
	start := 0
	for i, ev := range evs {
		if ev.Kind == verifrt.EvMark && ev.A == vMarkOpBegin {
			start = i
		}
	}
	inShrink := false
	var lastPos, flushed uint64
	appendedInTxn := false
	for i := start; i < len(evs); i++ {
		ev := evs[i]
		switch ev.Kind {
		case verifrt.EvMark:
			if ev.A == vMarkShrinkBegin {
				inShrink = true
			}
			if ev.A == vMarkShrinkEnd {
				inShrink = false
			}
		case verifrt.EvBegin:
			appendedInTxn = false
		case verifrt.EvAppend:
			if ev.A > 0 {
				if inShrink {
					m.helpers++
				} else {
					m.appends++
				}
				lastPos = ev.B
				appendedInTxn = true
			}
		case verifrt.EvRefused:
			m.refused++
		case verifrt.EvFlush:
			if ev.A > flushed {
				flushed = ev.A
			}
		case verifrt.EvAcquire:
			m.acquires++
			m.heldAtEnd++
			// exempt from the order: an inode number this request has just obtained from the allocator.
			// It is free, so no directory names it and no other multi-lock transaction can want it.
			fresh := false
			for j := start; j < i; j++ {
				if evs[j].Kind == verifrt.EvAlloc && evs[j].A != 0 && evs[j].A == ev.A && evs[j].A%32 == 7 {
					fresh = true
				}
			}
			m.ascending = m.ascending && (ev.B == 1 || fresh)
			m.twoPhase = m.twoPhase && ev.C == 0
		case verifrt.EvRelease:
			m.heldAtEnd--
			_ = appendedInTxn
		case verifrt.EvGo:
			m.spawned++
		case verifrt.EvRawWrite:
			m.rawWrites++
		case verifrt.EvAlloc:
			if ev.A != 0 && !inShrink {
				back := false
				for j := i + 1; j < len(evs); j++ {
					if evs[j].Kind == verifrt.EvFree && evs[j].Obj == ev.Obj && evs[j].A == ev.A {
						back = true
					}
				}
				m.balanced = m.balanced && back
			}
		}
	}
	m.durable = flushed >= lastPos
	return m
}

// bitmapHooks (C03/C14): the bitmaps are shared by all transactions and no lock covers them; what a
// transaction owns is the BIT of a number it holds through the in-memory allocator (allocated by it, or
// pointed to by an inode it has locked). GoJournal lets transactions commit concurrently only if the
// objects they touch are disjoint, so every journal access inside the bitmap region must be exactly one
// bit wide: a wider object (a byte, a block) is shared with transactions holding no common lock, and the
// later commit overwrites the earlier one's bits.
func (w *vW) bitmapHooks() {
	bs, ie := uint64(w.sup.BitmapBlockStart()), uint64(w.sup.InodeStart())
	chk := func(op *jrnl.Op, a addr.Addr, sz uint64) {
		if a.Blkno >= bs && a.Blkno < ie && sz != 1 {
			w.coarseBitmap = true
		}
	}
	verifrt.OnCall("(*github.com/mit-pdos/go-journal/jrnl.Op).ReadBuf", chk)
	verifrt.OnCall("(*github.com/mit-pdos/go-journal/jrnl.Op).OverWrite", chk)
}

// stepHooks marks DoShrink (helper transactions) in the event stream
func (w *vW) stepHooks() {
	verifrt.OnCall("(*github.com/mit-pdos/go-nfsd/shrinker.ShrinkerSt).DoShrink", func() { verifrt.Mark(vMarkShrinkBegin) })
	verifrt.OnReturn("(*github.com/mit-pdos/go-nfsd/shrinker.ShrinkerSt).DoShrink", func() { verifrt.Mark(vMarkShrinkEnd) })
}

// ---- a dead handle: the inode number is free, or live with another generation (the number was reused)
func (w *vW) deadFh(name string) nfstypes.Nfs_fh3 {
	x := w.vInum(name)
	g := verifrt.U64(name + "_gen")
	ip := w.vInodeAt(x)
	verifrt.Assume(ip.Kind == inode.NF3FREE || ip.Gen != g)
	w.boundInode(x, true)
	return fh.Fh{Ino: x, Gen: g}.MakeFh3()
}

func (w *vW) liveFh(name string, kind nfstypes.Ftype3) nfstypes.Nfs_fh3 {
	h, x := w.vLive(name, kind)
	w.boundInode(x, true)
	return h
}

// VerifC08Stale: every procedure and every handle position, given a dead handle, answers
// NFS3ERR_STALE and appends nothing to the journal.
func VerifC08Stale() {
	w := vWorld("d")
	w.stepHooks()
	dead := w.deadFh("dead")
	var st nfstypes.Nfsstat3
	verifrt.Mark(vMarkOpBegin)
	switch verifrt.Choose("proc", 1, 2, 3, 4, 5, 6, 7, 8, 9, 10, 12, 13, 14, 15, 16, 17, 19, 20, 21) {
	case 1:
		st = w.nfs.NFSPROC3_GETATTR(nfstypes.GETATTR3args{Object: dead}).Status
	case 2:
		st = w.nfs.NFSPROC3_SETATTR(nfstypes.SETATTR3args{Object: dead, New_attributes: vSattr("a")}).Status
	case 3:
		st = w.nfs.NFSPROC3_LOOKUP(nfstypes.LOOKUP3args{What: nfstypes.Diropargs3{Dir: dead, Name: w.vName("n")}}).Status
	case 4:
		st = w.nfs.NFSPROC3_ACCESS(nfstypes.ACCESS3args{Object: dead}).Status
	case 5:
		st = w.nfs.NFSPROC3_READLINK(nfstypes.READLINK3args{Symlink: dead}).Status
	case 6:
		st = w.nfs.NFSPROC3_READ(nfstypes.READ3args{File: dead, Offset: nfstypes.Offset3(verifrt.U64("off")), Count: nfstypes.Count3(verifrt.U32("cnt"))}).Status
	case 7:
		st = w.nfs.NFSPROC3_WRITE(nfstypes.WRITE3args{File: dead, Offset: nfstypes.Offset3(verifrt.U64("off")), Count: 1, Stable: nfstypes.Stable_how(verifrt.U32("stable")), Data: verifrt.Bytes("data", 1)}).Status
	case 8:
		st = w.nfs.NFSPROC3_CREATE(nfstypes.CREATE3args{Where: nfstypes.Diropargs3{Dir: dead, Name: w.vName("n")}}).Status
	case 9:
		st = w.nfs.NFSPROC3_MKDIR(nfstypes.MKDIR3args{Where: nfstypes.Diropargs3{Dir: dead, Name: w.vName("n")}}).Status
	case 10:
		st = w.nfs.NFSPROC3_SYMLINK(nfstypes.SYMLINK3args{Where: nfstypes.Diropargs3{Dir: dead, Name: w.vName("n")}, Symlink: nfstypes.Symlinkdata3{Symlink_data: "t"}}).Status
	case 12:
		st = w.nfs.NFSPROC3_REMOVE(nfstypes.REMOVE3args{Object: nfstypes.Diropargs3{Dir: dead, Name: "f"}}).Status
	case 13:
		st = w.nfs.NFSPROC3_RMDIR(nfstypes.RMDIR3args{Object: nfstypes.Diropargs3{Dir: dead, Name: "f"}}).Status
	case 14:
		// source directory dead, target directory live
		st = w.nfs.NFSPROC3_RENAME(nfstypes.RENAME3args{From: nfstypes.Diropargs3{Dir: dead, Name: "f"}, To: nfstypes.Diropargs3{Dir: w.liveFh("to", nfstypes.NF3DIR), Name: "g"}}).Status
	case 15:
		// target directory dead, source directory live
		st = w.nfs.NFSPROC3_RENAME(nfstypes.RENAME3args{From: nfstypes.Diropargs3{Dir: w.liveFh("from", nfstypes.NF3DIR), Name: "f"}, To: nfstypes.Diropargs3{Dir: dead, Name: "g"}}).Status
	case 16:
		st = w.nfs.NFSPROC3_READDIR(nfstypes.READDIR3args{Dir: dead, Count: nfstypes.Count3(verifrt.U32("count"))}).Status
	case 17:
		st = w.nfs.NFSPROC3_READDIRPLUS(nfstypes.READDIRPLUS3args{Dir: dead, Dircount: 1000, Maxcount: 1000}).Status
	case 19:
		st = w.nfs.NFSPROC3_FSINFO(nfstypes.FSINFO3args{Fsroot: dead}).Status
	case 20:
		st = w.nfs.NFSPROC3_PATHCONF(nfstypes.PATHCONF3args{Object: dead}).Status
	case 21:
		st = w.nfs.NFSPROC3_COMMIT(nfstypes.COMMIT3args{File: dead}).Status
	}
	m := vMonitor()
	verifrt.Assert(st == nfstypes.NFS3ERR_STALE, "dead-handle-is-stale")
	verifrt.Assert(m.appends == 0, "mon:dead-handle-no-effect")
	verifrt.Assert(m.heldAtEnd == 0, "mon:locks-released")
	verifrt.Cover("end")
}

// VerifC08Handles: handles handed out in replies are exactly (inode number, current generation) of the
// object they name; freeing or allocating an inode bumps its generation by one, everything else leaves
// it unchanged (so a pair (number, generation) is never issued for two objects).
func VerifC08Handles() {
	w := vWorld("d")
	w.stepHooks()
	dh, dx := w.vLive("dir", nfstypes.NF3DIR)
	w.boundInode(dx, true)
	name := w.vName("n")
	// witness inode for the generation step
	y := verifrt.Choose("wit", vChildOf(2), 39, dx)
	pre := w.vInodeAt(y)
	preKind, preGen := pre.Kind, pre.Gen
	verifrt.Mark(vMarkOpBegin)
	switch verifrt.Choose("proc", 3, 17, 8, 9, 10, 12, 13) {
	case 3:
		r := w.nfs.NFSPROC3_LOOKUP(nfstypes.LOOKUP3args{What: nfstypes.Diropargs3{Dir: dh, Name: name}})
		if r.Status == nfstypes.NFS3_OK {
			f := fh.MakeFh(r.Resok.Object)
			ip := w.vInodeAt(f.Ino)
			verifrt.Assert(ip.Kind != inode.NF3FREE && f.Gen == ip.Gen, "lookup-handle-is-inum-and-current-generation")
			verifrt.Assert(uint64(r.Resok.Obj_attributes.Attributes.Fileid) == f.Ino && r.Resok.Obj_attributes.Attributes.Ftype == ip.Kind, "lookup-attributes-of-that-object")
			verifrt.Cover("lookup-ok")
		}
	case 17:
		r := w.nfs.NFSPROC3_READDIRPLUS(nfstypes.READDIRPLUS3args{Dir: dh, Cookie: 0, Dircount: 100000, Maxcount: 100000})
		if r.Status == nfstypes.NFS3_OK {
			n := 0
			for e := r.Resok.Reply.Entries; e != nil; e = e.Nextentry {
				ip := w.vInodeAt(uint64(e.Fileid))
				verifrt.Assert(e.Name_handle.Handle_follows, "entry-has-handle")
				f := fh.MakeFh(e.Name_handle.Handle)
				verifrt.Assert(f.Ino == uint64(e.Fileid) && f.Gen == ip.Gen, "readdirplus-handle-is-fileid-and-current-generation")
				a := e.Name_attributes.Attributes
				verifrt.Assert(e.Name_attributes.Attributes_follow && uint64(a.Fileid) == uint64(e.Fileid) && a.Ftype == ip.Kind && uint64(a.Size) == ip.Size, "readdirplus-attributes-of-that-object")
				n++
			}
			if n >= 3 {
				verifrt.Cover("readdirplus-3")
			}
		}
	case 8, 9, 10:
		var st nfstypes.Nfsstat3
		var h nfstypes.Post_op_fh3
		var a nfstypes.Post_op_attr
		p := verifrt.Choose("mk", 8, 9, 10)
		if p == 8 {
			r := w.nfs.NFSPROC3_CREATE(nfstypes.CREATE3args{Where: nfstypes.Diropargs3{Dir: dh, Name: name}})
			st, h, a = r.Status, r.Resok.Obj, r.Resok.Obj_attributes
		} else if p == 9 {
			r := w.nfs.NFSPROC3_MKDIR(nfstypes.MKDIR3args{Where: nfstypes.Diropargs3{Dir: dh, Name: name}})
			st, h, a = r.Status, r.Resok.Obj, r.Resok.Obj_attributes
		} else {
			r := w.nfs.NFSPROC3_SYMLINK(nfstypes.SYMLINK3args{Where: nfstypes.Diropargs3{Dir: dh, Name: name}, Symlink: nfstypes.Symlinkdata3{Symlink_data: "t"}})
			st, h, a = r.Status, r.Resok.Obj, r.Resok.Obj_attributes
		}
		if st == nfstypes.NFS3_OK {
			verifrt.Assert(h.Handle_follows && a.Attributes_follow, "create-returns-handle-and-attributes")
			f := fh.MakeFh(h.Handle)
			ip := w.vInodeAt(f.Ino)
			verifrt.Assert(ip.Kind != inode.NF3FREE && f.Gen == ip.Gen && uint64(a.Attributes.Fileid) == f.Ino, "create-handle-is-inum-and-current-generation")
			verifrt.Cover("create-ok")
		}
	case 12:
		w.nfs.NFSPROC3_REMOVE(nfstypes.REMOVE3args{Object: nfstypes.Diropargs3{Dir: dh, Name: name}})
	case 13:
		w.nfs.NFSPROC3_RMDIR(nfstypes.RMDIR3args{Object: nfstypes.Diropargs3{Dir: dh, Name: name}})
	}
	post := w.vInodeAt(y)
	crossed := (preKind == inode.NF3FREE) != (post.Kind == inode.NF3FREE)
	if crossed {
		verifrt.Assert(post.Gen == preGen+1, "generation-bumped-when-freed-or-allocated")
		verifrt.Cover("crossed")
	} else {
		verifrt.Assert(post.Gen == preGen, "generation-unchanged-otherwise")
	}
	verifrt.Cover("end")
}

// ---- the generic one-RPC step from an arbitrary valid state, with property-specific obligation groups
// enabled by parameters (p01, p03, p06, p09, p10, p14).

const (
	pGETATTR = 1
	pSETATTR = 2
	pLOOKUP  = 3
	pREAD    = 6
	pWRITE   = 7
	pCREATE  = 8
	pMKDIR   = 9
	pSYMLINK = 10
	pREMOVE  = 12
	pRMDIR   = 13
	pRENAME  = 14
	pREADDIR = 16
	pRDPLUS  = 17
	pCOMMIT  = 21
	pREADLNK = 5
)

// quietInodeAt decodes inode x from the current logical disk without instantiating Inv (used for
// post-state comparisons, where Inv must not be assumed)
func (w *vW) quietInodeAt(x uint64) *inode.Inode {
	w.quiet = true
	ip := w.vInodeAt(x)
	w.quiet = false
	return ip
}

func vSameInode(a, b *inode.Inode) bool {
	eq := a.Kind == b.Kind && a.Nlink == b.Nlink && a.Gen == b.Gen && a.Size == b.Size && a.ShrinkSize == b.ShrinkSize &&
		a.Atime == b.Atime && a.Mtime == b.Mtime
	ab, bb := a.VerifBlks(), b.VerifBlks()
	for i := 0; i < 10; i++ {
		eq = eq && ab[i] == bb[i]
	}
	return eq
}

// coherent asserts I9 for the inode numbers a request can have touched: a cached inode equals the
// decoding of its 128 bytes on the logical disk.
func (w *vW) coherent(label string, nums []uint64) {
	for _, x := range nums {
		slot := w.nfs.fsstate.Icache.LookupSlot(x)
		if slot.Obj == nil {
			continue
		}
		c := slot.Obj.(*inode.Inode)
		d := w.quietInodeAt(x)
		verifrt.Assert(vSameInode(c, d), label)
	}
}

func VerifStep() {
	w := vWorld("d")
	w.stepHooks()
	if verifrt.Param("p14", 0) == 1 || verifrt.Param("p03", 0) == 1 {
		w.bitmapHooks()
	}
	if verifrt.Param("p14", 0) == 1 {
		vWatchShared()
	} else if verifrt.Param("p03", 0) == 1 {
		verifrt.Watch("github.com/mit-pdos/go-nfsd/inode.Inode")
	}
	var proc uint64
	switch verifrt.Param("procs", 0) {
	case 1: // data procedures
		proc = verifrt.Choose("proc", pSETATTR, pWRITE, pREAD, pGETATTR, pCOMMIT)
	case 2: // namespace procedures
		proc = verifrt.Choose("proc", pCREATE, pMKDIR, pSYMLINK, pREMOVE, pRMDIR, pLOOKUP)
	case 3:
		proc = verifrt.Choose("proc", pRENAME)
	case 4:
		proc = verifrt.Choose("proc", pREADDIR, pRDPLUS, pREADLNK)
	default:
		proc = verifrt.Choose("proc", pSETATTR, pWRITE, pREAD, pGETATTR, pCOMMIT, pCREATE, pMKDIR, pSYMLINK, pREMOVE, pRMDIR, pLOOKUP, pRENAME, pREADDIR, pRDPLUS, pREADLNK)
	}
	involved := []uint64{39, 71, vChildOf(1), vChildOf(2), 1}
	p05 := verifrt.Param("p05", 0) == 1
	p04 := verifrt.Param("p04", 0) == 1 || p05
	c04 := &v04{}
	var newh nfstypes.Post_op_fh3
	var name, name2 nfstypes.Filename3
	var dx1, dx2 uint64
	var st nfstypes.Nfsstat3
	mutating := true
	unstable := false
	verifrt.Mark(vMarkOpBegin)
	switch proc {
	case pGETATTR, pREAD, pCOMMIT, pSETATTR, pWRITE, pREADLNK:
		f, x, ok := w.anyFh("fh")
		ip := w.boundInode(x, ok)
		involved = append(involved, x)
		if p04 {
			w.pre04(c04, 39, 71)
			if ok {
				w.pre04(c04, x)
			}
			w.pre04links(c04)
		}
		switch proc {
		case pGETATTR:
			mutating = false
			st = w.nfs.NFSPROC3_GETATTR(nfstypes.GETATTR3args{Object: f}).Status
		case pREADLNK:
			mutating = false
			st = w.nfs.NFSPROC3_READLINK(nfstypes.READLINK3args{Symlink: f}).Status
		case pREAD:
			mutating = false
			off, cnt := vOffset("off"), verifrt.U32("cnt")
			if ip != nil {
				bb := verifrt.Param("bbytes", 2)
				verifrt.Assume(off >= ip.Size || uint64(cnt) <= bb || ip.Size-off <= bb)
			}
			st = w.nfs.NFSPROC3_READ(nfstypes.READ3args{File: f, Offset: nfstypes.Offset3(off), Count: nfstypes.Count3(cnt)}).Status
		case pCOMMIT:
			st = w.nfs.NFSPROC3_COMMIT(nfstypes.COMMIT3args{File: f, Offset: nfstypes.Offset3(verifrt.U64("off")), Count: nfstypes.Count3(verifrt.U32("cnt"))}).Status
		case pSETATTR:
			a := vSattr("a")
			a.Size.Size = nfstypes.Size3(vOffset("size"))
			if ip != nil {
				bb := verifrt.Param("bblocks", 1)
				oldb, newb := (ip.Size+4095)/4096, (uint64(a.Size.Size)+4095)/4096
				verifrt.Assume(!a.Size.Set_it || newb >= oldb || oldb-newb <= bb || oldb-newb >= 511)
			}
			st = w.nfs.NFSPROC3_SETATTR(nfstypes.SETATTR3args{Object: f, New_attributes: a}).Status
		case pWRITE:
			n := verifrt.U64("datalen")
			verifrt.Assume(n <= verifrt.Param("bbytes", 2))
			off := vOffset("off")
			verifrt.Assume(off%4096+n <= 4096)
			stable := nfstypes.Stable_how(verifrt.Choose("stable", 2, 0, 1))
			w.nfs.Unstable = verifrt.Choose("unstable_opt", 1, 0) == 1
			unstable = stable == nfstypes.UNSTABLE && w.nfs.Unstable
			st = w.nfs.NFSPROC3_WRITE(nfstypes.WRITE3args{File: f, Offset: nfstypes.Offset3(off), Count: nfstypes.Count3(n), Stable: stable, Data: verifrt.Bytes("data", n)}).Status
		}
	case pLOOKUP, pCREATE, pMKDIR, pSYMLINK, pREMOVE, pRMDIR, pREADDIR, pRDPLUS:
		f, x, ok := w.anyFh("dir")
		w.boundInode(x, ok)
		involved = append(involved, x)
		name = w.vName("n")
		dx1 = x
		if p04 {
			w.pre04(c04, 39, 71)
			if ok {
				c04.dirs = append(c04.dirs, x)
				w.pre04(c04, x, vChildIn(x, 2))
				if w.dirSlots > 3 {
					w.pre04(c04, vChildIn(x, 3))
				}
			}
			w.pre04links(c04)
		}
		switch proc {
		case pLOOKUP:
			mutating = false
			st = w.nfs.NFSPROC3_LOOKUP(nfstypes.LOOKUP3args{What: nfstypes.Diropargs3{Dir: f, Name: name}}).Status
		case pCREATE:
			r := w.nfs.NFSPROC3_CREATE(nfstypes.CREATE3args{Where: nfstypes.Diropargs3{Dir: f, Name: name}, How: nfstypes.Createhow3{Mode: nfstypes.Createmode3(verifrt.Choose("how", 0, 2))}})
			st, newh = r.Status, r.Resok.Obj
		case pMKDIR:
			r := w.nfs.NFSPROC3_MKDIR(nfstypes.MKDIR3args{Where: nfstypes.Diropargs3{Dir: f, Name: name}})
			st, newh = r.Status, r.Resok.Obj
		case pSYMLINK:
			r := w.nfs.NFSPROC3_SYMLINK(nfstypes.SYMLINK3args{Where: nfstypes.Diropargs3{Dir: f, Name: name}, Symlink: nfstypes.Symlinkdata3{Symlink_data: nfstypes.Nfspath3(verifrt.String("tgt", 2))}})
			st, newh = r.Status, r.Resok.Obj
		case pREMOVE:
			st = w.nfs.NFSPROC3_REMOVE(nfstypes.REMOVE3args{Object: nfstypes.Diropargs3{Dir: f, Name: name}}).Status
		case pRMDIR:
			st = w.nfs.NFSPROC3_RMDIR(nfstypes.RMDIR3args{Object: nfstypes.Diropargs3{Dir: f, Name: name}}).Status
		case pREADDIR:
			mutating = false
			st = w.nfs.NFSPROC3_READDIR(nfstypes.READDIR3args{Dir: f, Cookie: nfstypes.Cookie3(verifrt.Choose("cookie", 0, 128, 256, 384)), Count: nfstypes.Count3(verifrt.U32("count"))}).Status
		case pRDPLUS:
			mutating = false
			st = w.nfs.NFSPROC3_READDIRPLUS(nfstypes.READDIRPLUS3args{Dir: f, Cookie: nfstypes.Cookie3(verifrt.Choose("cookie", 0, 128, 256, 384)),
				Dircount: nfstypes.Count3(verifrt.U32("dircount")), Maxcount: nfstypes.Count3(verifrt.U32("maxcount"))}).Status
		}
	case pRENAME:
		from, x1, ok1 := w.anyFh("from")
		w.boundInode(x1, ok1)
		to, x2, ok2 := from, x1, ok1
		if verifrt.Choose("samedir", 1, 0) == 0 {
			to, x2, ok2 = w.anyFh("to")
			w.boundInode(x2, ok2)
		}
		involved = append(involved, x1, x2)
		dx1, dx2 = x1, x2
		name, name2 = w.vName("fn"), w.vName("tn")
		if p04 {
			w.pre04(c04, 39, 71)
			if ok1 {
				c04.dirs = append(c04.dirs, x1)
				w.pre04(c04, x1, vChildIn(x1, 2))
				if w.dirSlots > 3 {
					w.pre04(c04, vChildIn(x1, 3))
				}
			}
			if ok2 && x2 != x1 {
				c04.dirs = append(c04.dirs, x2)
				w.pre04(c04, x2, vChildIn(x2, 2))
				if w.dirSlots > 3 {
					w.pre04(c04, vChildIn(x2, 3))
				}
			}
			w.pre04links(c04)
		}
		st = w.nfs.NFSPROC3_RENAME(nfstypes.RENAME3args{From: nfstypes.Diropargs3{Dir: from, Name: name}, To: nfstypes.Diropargs3{Dir: to, Name: name2}}).Status
	}
	verifrt.Mark(vMarkOpEnd)
	m := vMonitor()
	ok := st == nfstypes.NFS3_OK
	if verifrt.Param("p14", 0) == 1 || verifrt.Param("p03", 0) == 1 {
		vLockset("mon:inode-accessed-only-under-its-lock")
		verifrt.Assert(!w.coarseBitmap, "mon:bitmaps-accessed-one-bit-at-a-time")
	}
	if ok {
		verifrt.Cover("ok")
	} else {
		verifrt.Cover("err")
	}
	verifrt.Assert(m.heldAtEnd == 0, "mon:locks-released")
	if verifrt.Param("p01", 0) == 1 {
		verifrt.Assert(m.appends <= 1, "mon:one-journal-transaction-per-rpc")
		verifrt.Assert(m.rawWrites == 0, "mon:no-write-bypasses-the-journal")
		verifrt.Assert(!ok || unstable || m.durable, "mon:durable-before-ok-reply")
		verifrt.Assert(mutating || m.appends == 0 || proc == pREAD || proc == pREADLNK || proc == pLOOKUP || proc == pREADDIR || proc == pRDPLUS, "mon:read-only-procedures-append-nothing")
	}
	if verifrt.Param("p09", 0) == 1 && !ok {
		verifrt.Assert(m.appends == 0, "mon:failed-rpc-appends-nothing")
		verifrt.Assert(m.balanced, "mon:failed-rpc-returns-its-allocations")
		verifrt.Assert(m.spawned == 0, "mon:failed-rpc-starts-no-background-work")
		w.coherent("failed-rpc-leaves-cached-inodes-equal-to-disk", involved)
	}
	if verifrt.Param("p10", 0) == 1 {
		w.coherent("cached-inode-equals-disk", involved)
	}
	if p04 {
		r04 := &v04res{}
		w.post04(c04, r04)
		w.freedDirWasEmpty(c04, r04)
		r04.settle()
		if ok {
			w.names04(c04, proc, dx1, dx2, name, name2, newh)
		}
	}
	if p05 {
		w.allocAgreeAt(c04)
	}
	if verifrt.Param("p06", 0) == 1 {
		verifrt.AssertK(m.ascending, "mon:locks-acquired-in-ascending-order", "KF-apply-lock-order", proc == pRDPLUS)
	}
	if verifrt.Param("p03", 0) == 1 {
		verifrt.AssertK(m.twoPhase, "mon:no-lock-acquired-after-a-release", "KF-apply-early-release", proc == pRDPLUS)
	}
}

// VerifC06LockInodes: the real lockInodes on 2..4 symbolic inode numbers (possibly equal): locks are
// taken in strictly ascending order, none twice, and the result lists the inodes in argument order.
func VerifC06LockInodes() {
	w := vWorld("d")
	n := verifrt.Choose("n", 2, 3, 4)
	inums := make([]uint64, n)
	for i := range inums {
		inums[i] = w.vInum("x")
		verifrt.Assume(inums[i] >= 1)
	}
	op := fstxn.Begin(w.nfs.fsstate)
	verifrt.Mark(vMarkOpBegin)
	inodes := lockInodes(op, inums)
	m := vMonitor()
	verifrt.Assert(m.ascending, "mon:lockinodes-ascending")
	if inodes != nil {
		for i := range inums {
			verifrt.Assert(inodes[i] != nil && inodes[i].Inum == inums[i], "result-in-argument-order")
		}
		verifrt.Cover("locked")
	} else {
		verifrt.Assert(m.heldAtEnd == 0, "mon:abort-releases-all")
		verifrt.Cover("aborted")
	}
}

func vWatchShared() {
	verifrt.Watch("github.com/mit-pdos/go-nfsd/inode.Inode")
	verifrt.Watch("github.com/mit-pdos/go-nfsd/shrinker.ShrinkerSt|mu|nthread,crash")
	verifrt.Watch("github.com/mit-pdos/go-nfsd/cache.Cache|mu|entries,lru,cnt")
	verifrt.Watch("github.com/mit-pdos/go-nfsd/util/stats.Op|atomic|count,nanos")
	verifrt.Watch("github.com/mit-pdos/go-journal/alloc.Alloc|mu|next,bitmap")
}

func vNoUnprotected(label string) {
	for _, ev := range verifrt.Events() {
		if ev.Kind == verifrt.EvAccess {
			verifrt.Assert(ev.A == 1, label)
		}
	}
}

// VerifC14Background: the background shrinker thread, shutdown/crash and the statistics code access
// shared state only under the protection that orders it with its writers (lockset discipline).
func VerifC14Background() {
	w := vWorld("d")
	w.stepHooks()
	vWatchShared()
	_, x := w.vLive("f", nfstypes.NF3REG)
	ip := w.boundInode(x, true)
	verifrt.Assume(ip.ShrinkSize-(ip.Size+4095)/4096 <= 1)
	switch verifrt.Choose("scenario", 0, 1, 2) {
	case 0:
		// a shrinker thread is started and runs to completion, then the server shuts down
		w.nfs.shrinkst.StartShrinker(x)
		verifrt.Assert(verifrt.NumSpawned() == 1, "mon:shrinker-spawned")
		verifrt.RunSpawned()
		w.nfs.shrinkst.Shutdown()
		verifrt.Cover("shrinker")
	case 1:
		// crash while no shrinker is running
		w.nfs.shrinkst.Crash()
		verifrt.Cover("crash")
	case 2:
		// statistics: recorded by a request, reset by the administrator
		w.nfs.NFSPROC3_GETATTR(nfstypes.GETATTR3args{Object: fh.MkRootFh3()})
		w.nfs.ResetOpStats()
		verifrt.Cover("stats")
	}
	vNoUnprotected("mon:shared-state-accessed-only-under-its-protection")
	verifrt.Assert(verifrt.AccessCount() > 0, "mon:monitor-saw-accesses")
}

// VerifC13Readdir: page through a symbolic directory with READDIR or READDIRPLUS, passing back the
// cookie of the last entry received and an arbitrary size limit on every page: every page makes
// progress or signals eof, cookies increase, the enumeration ends, every live slot is returned exactly
// once with its own file id and name, and no empty slot is returned.
func VerifC13Readdir() {
	w := vWorld("d")
	dh, dx := w.vLive("dir", nfstypes.NF3DIR)
	dip := w.boundInode(dx, true)
	K := w.dirSlots
	blk := w.d.Peek(dip.VerifBlks()[0])
	w.assumeDir(dip, true)
	nslots := dip.Size / 128
	plus := verifrt.Choose("plus", 0, 1) == 1
	seen := make([]uint64, K)
	var cookie uint64
	eof := false
	for page := uint64(0); page < K+2 && !eof; page++ {
		var first *nfstypes.Entry3
		var firstp *nfstypes.Entryplus3
		if plus {
			r := w.nfs.NFSPROC3_READDIRPLUS(nfstypes.READDIRPLUS3args{Dir: dh, Cookie: nfstypes.Cookie3(cookie),
				Dircount: nfstypes.Count3(verifrt.U32("dircount")), Maxcount: nfstypes.Count3(verifrt.U32("maxcount"))})
			verifrt.Assert(r.Status == nfstypes.NFS3_OK, "readdirplus-ok")
			firstp, eof = r.Resok.Reply.Entries, r.Resok.Reply.Eof
		} else {
			r := w.nfs.NFSPROC3_READDIR(nfstypes.READDIR3args{Dir: dh, Cookie: nfstypes.Cookie3(cookie), Count: nfstypes.Count3(verifrt.U32("count"))})
			verifrt.Assert(r.Status == nfstypes.NFS3_OK, "readdir-ok")
			first, eof = r.Resok.Reply.Entries, r.Resok.Reply.Eof
		}
		n := 0
		last := cookie
		for first != nil || firstp != nil {
			var ck, fid uint64
			var name nfstypes.Filename3
			if plus {
				ck, fid, name = uint64(firstp.Cookie), uint64(firstp.Fileid), firstp.Name
				firstp = firstp.Nextentry
			} else {
				ck, fid, name = uint64(first.Cookie), uint64(first.Fileid), first.Name
				first = first.Nextentry
			}
			verifrt.Assert(n == 0 && page == 0 || ck > last, "cookies-strictly-increase")
			// which slot does this entry come from? (cookies identify slots; the slot is recovered from
			// the file id and name below, independent of the cookie encoding)
			found := false
			for s := uint64(0); s < K; s++ {
				si, _ := dir.VerifSlot(blk, s)
				if s < nslots && si != 0 && si == fid && dir.VerifSlotNameEq(blk, s, string(name), w.cmp+1) {
					seen[s]++
					found = true
				}
			}
			verifrt.Assert(found, "entry-is-in-the-directory")
			last = ck
			n++
		}
		verifrt.Assert(eof || n > 0, "page-makes-progress-or-signals-eof")
		cookie = last
	}
	verifrt.Assert(eof, "enumeration-ends")
	for s := uint64(0); s < K; s++ {
		si, _ := dir.VerifSlot(blk, s)
		if s < nslots && si != 0 {
			verifrt.Assert(seen[s] == 1, "live-entry-returned-exactly-once")
		} else {
			verifrt.Assert(seen[s] == 0, "empty-slot-never-returned")
		}
	}
	verifrt.Cover("end")
}

// VerifC12Zero: I7 is preserved by the procedures that free or re-expose space. Pre-state: allocated
// blocks handed out are zero (free blocks are zero) and the bytes of the file's last block beyond its
// size are zero. Post-state: every block the request freed is all-zero on the logical disk (witness
// byte), and the bytes beyond the new size in the file's last block are zero (witness byte), for
// files in the direct-block range.
func VerifC12Zero() {
	w := vWorld("d")
	w.stepHooks()
	h, x := w.vLive("f", nfstypes.NF3REG)
	ip := w.boundInode(x, true)
	// bound: representative sizes around the block boundaries of the direct range
	var sz0 uint64
	if verifrt.Param("sizes", 1) == 9 {
		sz0 = verifrt.Choose("oldsize", 5000)
	} else if verifrt.Param("sizes", 1) == 1 {
		sz0 = verifrt.Choose("oldsize", 5000, 0, 100, 4096, 8192)
	} else {
		sz0 = verifrt.Choose("oldsize", 5000, 0, 1, 100, 4095, 4096, 4097, 8191, 8192, 12000, 32768)
	}
	verifrt.Assume(ip.Size == sz0 && ip.ShrinkSize <= 8)
	// pre: tail of the last block is zero
	q := verifrt.U64("q")
	verifrt.Assume(q < 4096)
	if ip.Size%4096 != 0 {
		li := verifrt.Split(ip.Size/4096, 8)
		b := ip.VerifBlks()[li]
		verifrt.Assume(b == 0 || q < ip.Size%4096 || w.d.Peek(b)[q] == 0)
	}
	var st nfstypes.Nfsstat3
	preBlks := make([]uint64, 8)
	for i := 0; i < 8; i++ {
		preBlks[i] = ip.VerifBlks()[i]
	}
	verifrt.Mark(vMarkOpBegin)
	switch verifrt.Choose("proc", pSETATTR, pWRITE, pREMOVE) {
	case pSETATTR:
		var a nfstypes.Sattr3
		a.Size.Set_it = true
		var ns uint64
		if verifrt.Param("sizes", 1) == 9 {
			ns = verifrt.Choose("newsize", 100)
		} else if verifrt.Param("sizes", 1) == 1 {
			ns = verifrt.Choose("newsize", 100, 0, 4096, 4500, 6000, 9000)
		} else {
			ns = verifrt.Choose("newsize", 10, 0, 1, 4095, 4096, 4097, 4500, 6000, 8192, 9000, 20000, 32768)
		}
		oldb, newb := (ip.Size+4095)/4096, (ns+4095)/4096
		verifrt.Assume(newb >= oldb || oldb-newb <= verifrt.Param("bblocks", 1))
		a.Size.Size = nfstypes.Size3(ns)
		st = w.nfs.NFSPROC3_SETATTR(nfstypes.SETATTR3args{Object: h, New_attributes: a}).Status
	case pWRITE:
		n := verifrt.U64("datalen")
		verifrt.Assume(n <= verifrt.Param("bbytes", 2))
		off := verifrt.Choose("off", 0, 50, 4094, 4096, 6000, 8192, 12288)
		st = w.nfs.NFSPROC3_WRITE(nfstypes.WRITE3args{File: h, Offset: nfstypes.Offset3(off), Count: nfstypes.Count3(n), Stable: nfstypes.FILE_SYNC, Data: verifrt.Bytes("data", n)}).Status
	case pREMOVE:
		// remove the file through its (representative) parent directory entry
		dh, dx := w.vLive("dir", nfstypes.NF3DIR)
		w.boundInode(dx, true)
		verifrt.Assume(x == vChildIn(dx, 2))
		st = w.nfs.NFSPROC3_REMOVE(nfstypes.REMOVE3args{Object: nfstypes.Diropargs3{Dir: dh, Name: w.vName("n")}}).Status
	}
	if st != nfstypes.NFS3_OK {
		verifrt.Cover("err")
		return
	}
	// (1) blocks the file no longer points to were freed, and freed blocks are zero on the logical disk
	qq := verifrt.U64("qq")
	verifrt.Assume(qq < 4096)
	np := w.quietInodeAt(x)
	nfreed := 0
	for i := uint64(0); i < 8; i++ {
		// a pointer of the pre-state is 0 or the representative block c (bound R_addr)
		c := vBlockOf(x, i)
		nb := np.VerifBlks()[i]
		gone := preBlks[i] == c && (np.Kind == inode.NF3FREE || nb != c)
		zero := w.d.Peek(c)[qq] == 0
		verifrt.Assert(!gone || zero, "freed-block-is-zero-on-disk")
	}
	for _, ev := range verifrt.Events() {
		if ev.Kind == verifrt.EvFree && ev.Obj == interface{}(w.nfs.fsstate.Balloc) {
			verifrt.Assert(w.d.Peek(ev.A)[qq] == 0, "mon:every-freed-number-is-a-zero-block")
			nfreed++
		}
	}
	if nfreed > 0 {
		verifrt.Cover("freed")
	}
	// (2) tail of the (new) last block is zero
	if np.Kind != inode.NF3FREE && np.Size%4096 != 0 && np.Size <= 8*4096 {
		li := verifrt.Split(np.Size/4096, 8)
		b := np.VerifBlks()[li]
		if b != 0 {
			verifrt.Assert(q < np.Size%4096 || w.d.Peek(b)[q] == 0, "bytes-beyond-the-size-in-the-last-block-are-zero")
			verifrt.Cover("tail")
		}
	}
	verifrt.Cover("ok")
}

// VerifC19Limits: the limits announced by PATHCONF/FSINFO against the guards of the procedures.
func VerifC19Limits() {
	w := vWorld("d")
	w.stepHooks()
	root := fh.MkRootFh3()
	pc := w.nfs.NFSPROC3_PATHCONF(nfstypes.PATHCONF3args{Object: root})
	fi := w.nfs.NFSPROC3_FSINFO(nfstypes.FSINFO3args{Fsroot: root})
	verifrt.Assert(pc.Status == nfstypes.NFS3_OK && fi.Status == nfstypes.NFS3_OK, "pathconf-fsinfo-ok")
	nameMax := uint64(pc.Resok.Name_max)
	wtmax := uint64(fi.Resok.Wtmax)
	maxfs := uint64(fi.Resok.Maxfilesize)
	verifrt.Assert(pc.Resok.No_trunc, "no-trunc-announced")
	switch verifrt.Choose("what", 0, 1, 2, 3) {
	case 0:
		// names: every length up to name_max can be created (given room and a free inode), longer ones
		// are refused without effect
		dh, dx := w.vLive("dir", nfstypes.NF3DIR)
		w.boundInode(dx, true)
		L := verifrt.Choose("len", nameMax, nameMax-1, nameMax+1, 255, 1)
		name := nfstypes.Filename3(verifrt.Name("n", L, 1))
		verifrt.Assume(name != "." && name != "..")
		verifrt.Mark(vMarkOpBegin)
		var st nfstypes.Nfsstat3
		proc := verifrt.Choose("proc", pCREATE, pMKDIR, pSYMLINK, pRENAME)
		switch proc {
		case pRENAME:
			// the new name of a rename is a name like any other (the old one is any existing short name)
			fn := w.vName("fn")
			verifrt.Assume(fn != "." && fn != "..")
			st = w.nfs.NFSPROC3_RENAME(nfstypes.RENAME3args{From: nfstypes.Diropargs3{Dir: dh, Name: fn}, To: nfstypes.Diropargs3{Dir: dh, Name: name}}).Status
		case pCREATE:
			st = w.nfs.NFSPROC3_CREATE(nfstypes.CREATE3args{Where: nfstypes.Diropargs3{Dir: dh, Name: name}}).Status
		case pMKDIR:
			st = w.nfs.NFSPROC3_MKDIR(nfstypes.MKDIR3args{Where: nfstypes.Diropargs3{Dir: dh, Name: name}}).Status
		case pSYMLINK:
			st = w.nfs.NFSPROC3_SYMLINK(nfstypes.SYMLINK3args{Where: nfstypes.Diropargs3{Dir: dh, Name: name}, Symlink: nfstypes.Symlinkdata3{Symlink_data: "t"}}).Status
		}
		m := vMonitor()
		nofail := true
		for _, ev := range verifrt.Events() {
			if ev.Kind == verifrt.EvAlloc && ev.A == 0 {
				nofail = false
			}
		}
		if st == nfstypes.NFS3ERR_EXIST {
			verifrt.Cover("dbg-exist")
		}
		if st == nfstypes.NFS3ERR_NOSPC {
			verifrt.Cover("dbg-nospc")
		}
		if st == nfstypes.NFS3ERR_IO {
			verifrt.Cover("dbg-io")
		}
		if L <= nameMax {
			// the only admissible refusals: the name exists already, or the disk / inode table is full
			noent := proc == pRENAME && st == nfstypes.NFS3ERR_NOENT
			verifrt.Assert(st == nfstypes.NFS3_OK || st == nfstypes.NFS3ERR_EXIST || noent || (!nofail && st == nfstypes.NFS3ERR_NOSPC), "mon:name-up-to-name_max-accepted")
			if st == nfstypes.NFS3_OK {
				// (a rename of a name onto itself succeeds without writing anything)
				verifrt.Assert((m.appends == 1 || (proc == pRENAME && m.appends == 0)) && m.durable, "mon:created-durably")
				verifrt.Cover("name-ok")
				if proc == pRENAME {
					verifrt.Cover("rename-ok")
				}
				// ... and can be read back from the disk: with the directory's name cache dropped (as after
				// a restart, an eviction or an aborted request) the name still resolves
				if slot := w.nfs.fsstate.Icache.LookupSlot(dx); slot != nil && slot.Obj != nil {
					slot.Obj.(*inode.Inode).Dcache = nil
				}
				lk := w.nfs.NFSPROC3_LOOKUP(nfstypes.LOOKUP3args{What: nfstypes.Diropargs3{Dir: dh, Name: name}})
				verifrt.Assert(lk.Status == nfstypes.NFS3_OK, "accepted-name-reads-back-from-disk")
			}
		} else {
			verifrt.Assert(st != nfstypes.NFS3_OK && m.appends == 0, "name-beyond-name_max-refused-without-effect")
			verifrt.Cover("name-refused")
		}
	case 1:
		// sizes: SETATTR up to maxfilesize accepted and the state can be read back; beyond refused
		h, x := w.vLive("f", nfstypes.NF3REG)
		ip := w.boundInode(x, true)
		verifrt.Assume(ip.Size <= 4096 && ip.ShrinkSize <= 1)
		ns := verifrt.Choose("size", maxfs, maxfs-1, maxfs+1, 1<<63, ^uint64(0), maxfs+4096)
		var a nfstypes.Sattr3
		a.Size.Set_it = true
		a.Size.Size = nfstypes.Size3(ns)
		verifrt.Mark(vMarkOpBegin)
		st := w.nfs.NFSPROC3_SETATTR(nfstypes.SETATTR3args{Object: h, New_attributes: a}).Status
		m := vMonitor()
		if ns <= maxfs {
			verifrt.Assert(st == nfstypes.NFS3_OK, "size-up-to-maxfilesize-accepted")
			g := w.nfs.NFSPROC3_GETATTR(nfstypes.GETATTR3args{Object: h})
			verifrt.Assert(g.Status == nfstypes.NFS3_OK && uint64(g.Resok.Obj_attributes.Size) == ns, "size-reads-back")
			verifrt.Cover("size-ok")
		} else {
			verifrt.Assert(st != nfstypes.NFS3_OK && m.appends == 0, "size-beyond-maxfilesize-refused-without-effect")
			g := w.nfs.NFSPROC3_GETATTR(nfstypes.GETATTR3args{Object: h})
			verifrt.Assert(g.Status == nfstypes.NFS3_OK && uint64(g.Resok.Obj_attributes.Size) == ip.Size, "refused-size-leaves-size-unchanged")
			verifrt.Cover("size-refused")
		}
	case 2:
		// writes around maxfilesize
		h, x := w.vLive("f", nfstypes.NF3REG)
		ip := w.boundInode(x, true)
		verifrt.Assume(ip.Size <= 4096 && ip.ShrinkSize <= 1)
		off := verifrt.Choose("off", maxfs-1, maxfs, maxfs-2, ^uint64(0))
		n := verifrt.Choose("n", 1, 2)
		verifrt.Mark(vMarkOpBegin)
		r := w.nfs.NFSPROC3_WRITE(nfstypes.WRITE3args{File: h, Offset: nfstypes.Offset3(off), Count: nfstypes.Count3(n), Stable: nfstypes.FILE_SYNC, Data: verifrt.Bytes("data", n)})
		m := vMonitor()
		nofail := true
		for _, ev := range verifrt.Events() {
			if ev.Kind == verifrt.EvAlloc && ev.A == 0 {
				nofail = false
			}
		}
		if off+n >= off && off+n <= maxfs {
			verifrt.Assert(r.Status == nfstypes.NFS3_OK || !nofail, "mon:write-up-to-maxfilesize-accepted")
			if r.Status == nfstypes.NFS3_OK {
				verifrt.Assert(uint64(r.Resok.Count) == n, "write-not-truncated")
				verifrt.Cover("write-ok")
			}
		} else {
			verifrt.Assert(r.Status != nfstypes.NFS3_OK && m.appends == 0, "write-beyond-maxfilesize-refused-without-effect")
			verifrt.Cover("write-refused")
		}
	case 3:
		// the transfer-size guard: a write of the announced wtmax passes the guard (it may still not
		// fit the journal: K03), one byte more is refused without effect
		h, x := w.vLive("f", nfstypes.NF3REG)
		w.boundInode(x, true)
		over := verifrt.Choose("over", 1, 0)
		cnt := wtmax + over
		data := make([]byte, cnt)
		verifrt.Mark(vMarkOpBegin)
		r := w.nfs.NFSPROC3_WRITE(nfstypes.WRITE3args{File: h, Offset: 0, Count: nfstypes.Count3(cnt), Stable: nfstypes.FILE_SYNC, Data: data})
		m := vMonitor()
		if over == 1 {
			verifrt.Assert(r.Status != nfstypes.NFS3_OK && m.appends == 0, "write-above-wtmax-refused-without-effect")
		} else {
			// a transfer of exactly the announced maximum must not be refused as too large
			verifrt.AssertK(r.Status != nfstypes.NFS3ERR_INVAL, "wtmax-count-accepted-by-guard", "KF-wtmax", true)
		}
		verifrt.Assert(wtmax <= 511*4096 && wtmax%4096 == 0, "wtmax-is-a-whole-number-of-blocks-within-the-journal")
		verifrt.Cover("wtmax")
	}
}

// VerifC07Write: the stability contract of WRITE: the committed level reported is never weaker than
// requested, anything reported above UNSTABLE is durable when the reply is built, with the server's
// unstable option off every write is FILE_SYNC, and the data is readable at once.
func VerifC07Write() {
	w := vWorld("d")
	w.stepHooks()
	h, x := w.vLive("f", nfstypes.NF3REG)
	ip := w.boundInode(x, true)
	verifrt.Assume(ip.Size <= 8192 && ip.ShrinkSize <= 2)
	stable := nfstypes.Stable_how(verifrt.Choose("stable", 0, 1, 2))
	w.nfs.Unstable = verifrt.Choose("unstable_opt", 1, 0) == 1
	off := verifrt.Choose("off", 0, 4095, 4096)
	n := verifrt.Choose("n", 1, 2)
	data := verifrt.Bytes("data", n)
	verifrt.Mark(vMarkOpBegin)
	r := w.nfs.NFSPROC3_WRITE(nfstypes.WRITE3args{File: h, Offset: nfstypes.Offset3(off), Count: nfstypes.Count3(n), Stable: stable, Data: data})
	m := vMonitor()
	if r.Status != nfstypes.NFS3_OK {
		verifrt.Cover("err")
		return
	}
	c := r.Resok.Committed
	verifrt.Assert(c == nfstypes.UNSTABLE || c == nfstypes.DATA_SYNC || c == nfstypes.FILE_SYNC, "committed-is-a-stability-level")
	verifrt.Assert(c >= stable, "committed-not-weaker-than-requested")
	verifrt.Assert(c == nfstypes.UNSTABLE || m.durable, "mon:stable-reply-implies-durable")
	verifrt.Assert(w.nfs.Unstable || (c == nfstypes.FILE_SYNC && m.durable), "mon:unstable-option-off-means-file-sync")
	verifrt.Assert(m.appends == 1, "mon:one-transaction")
	// readable immediately
	wrote := uint64(r.Resok.Count) // a short write is allowed when the disk fills up
	verifrt.Assert(wrote <= n && wrote >= 1, "wrote-some-of-the-bytes")
	rd := w.nfs.NFSPROC3_READ(nfstypes.READ3args{File: h, Offset: nfstypes.Offset3(off), Count: nfstypes.Count3(wrote)})
	verifrt.Assert(rd.Status == nfstypes.NFS3_OK && uint64(len(rd.Resok.Data)) == wrote, "read-after-write-ok")
	k := verifrt.U64("k")
	verifrt.Assume(k < wrote)
	verifrt.Assert(rd.Resok.Data[k] == data[k], "read-after-write-returns-the-data")
	if c == nfstypes.UNSTABLE {
		verifrt.Cover("unstable")
	} else {
		verifrt.Cover("stable")
	}
}

// VerifC07Commit: after an UNSTABLE write, a successful COMMIT has flushed everything appended so far,
// and carries the same verifier as the WRITE; two server instances have different verifiers.
func VerifC07Commit() {
	w := vWorld("d")
	w.stepHooks()
	h, x := w.vLive("f", nfstypes.NF3REG)
	ip := w.boundInode(x, true)
	verifrt.Assume(ip.Size <= 8192 && ip.ShrinkSize <= 2)
	data := verifrt.Bytes("data", 1)
	verifrt.Mark(vMarkOpBegin)
	r := w.nfs.NFSPROC3_WRITE(nfstypes.WRITE3args{File: h, Offset: 0, Count: 1, Stable: nfstypes.UNSTABLE, Data: data})
	if r.Status != nfstypes.NFS3_OK {
		return
	}
	// one or two unstable writes are outstanding when the COMMIT arrives
	nw := verifrt.Choose("nwrites", 1, 2)
	if nw == 2 {
		r1 := w.nfs.NFSPROC3_WRITE(nfstypes.WRITE3args{File: h, Offset: 4096, Count: 1, Stable: nfstypes.UNSTABLE, Data: data})
		if r1.Status != nfstypes.NFS3_OK {
			return
		}
		verifrt.Assert(r1.Resok.Verf == r.Resok.Verf, "verifier-stable-within-an-instance")
		verifrt.Cover("two-writes")
	}
	m1 := vMonitor()
	cm := w.nfs.NFSPROC3_COMMIT(nfstypes.COMMIT3args{File: h, Offset: 0, Count: 0})
	m2 := vMonitor()
	verifrt.Assert(cm.Status == nfstypes.NFS3_OK, "commit-ok")
	verifrt.Assert(m1.appends == nw && m2.durable, "mon:commit-flushes-every-earlier-append")
	verifrt.Assert(cm.Resok.Verf == r.Resok.Verf, "commit-and-write-verifier-agree")
	// a second server instance (a restart on the same disk) answers with another verifier
	nfs2 := MakeNfs(w.d)
	r2 := nfs2.NFSPROC3_WRITE(nfstypes.WRITE3args{File: h, Offset: 0, Count: 1, Stable: nfstypes.FILE_SYNC, Data: data})
	verifrt.Assert(r2.Status == nfstypes.NFS3_OK, "write-after-restart-ok")
	verifrt.Assert(r2.Resok.Verf != r.Resok.Verf, "verifier-differs-between-instances")
	verifrt.Cover("end")
}

// VerifC01Recovery: a server started on a disk whose log holds a committed transaction that has not
// been installed yet must build its in-memory state (allocators, root inode) from the logical disk
// (home blocks overlaid with the log), not from the raw home blocks. The real write-ahead log runs here
// (recovery, memory log); its background installer has not run yet.
func VerifC01Recovery() {
	d := verifrt.NewDisk("raw", verifrt.Param("disksz", 10000))
	h1, h2 := d.Init(0), d.Init(1)
	// log [0,1): one committed update, addressed to the block bitmap (block 513), stored in log block 2
	for i := uint64(0); i < 8; i++ {
		verifrt.Assume(h2[i] == 0)
		e := byte(0)
		if i == 0 {
			e = 1
		}
		verifrt.Assume(h1[i] == e)
		a := byte(uint64(513) >> (8 * i))
		verifrt.Assume(h1[8+i] == a)
	}
	// the root inode (home copy, not in the log) is a directory: the file system is formatted
	rb := d.Init(515)
	verifrt.Assume(rb[128] == 2 && rb[129] == 0 && rb[130] == 0 && rb[131] == 0)
	logged := d.Init(2)
	nfs := MakeNfs(d)
	n := verifrt.U64("bit")
	verifrt.Assume(n < 32768)
	logical := logged[n/8]&(1<<(n%8)) != 0
	verifrt.Assert(nfs.fsstate.Balloc.VerifBit(n) == logical, "allocator-built-from-the-logical-disk")
	verifrt.Cover("end")
}

// VerifC03Revalidate: the two places where a request drops all its locks and takes them again in
// ascending order (lookupOrdered for LOOKUP/REMOVE/RMDIR, validateRename for RENAME onto an existing
// name). Between the unlocked look and the re-lock other requests may have changed the directories
// arbitrarily, so what the request saw earlier is modelled as an ARBITRARY inode number (resp. arbitrary
// numbers and handles): whenever the re-locking step accepts, the inodes it hands on are exactly the
// ones the names denote NOW, under the locks, and the directory handles are current. Otherwise a
// request would go on to operate on an object the name no longer denotes (a half-applied view of the
// other request).
func VerifC03Revalidate() {
	w := vWorld("d")
	dh, dx := w.vLive("dir", nfstypes.NF3DIR)
	w.boundInode(dx, true)
	g := verifrt.U64("hgen")
	parent := fh.Fh{Ino: dx, Gen: g}
	_ = dh
	switch verifrt.Choose("site", 0, 1, 2) {
	case 0:
		name := w.vName("n")
		seen := verifrt.Choose("seen", vChildOf(2), 64, vChildOf(1), 2)
		verifrt.Assume(seen != dx)
		op := fstxn.Begin(w.nfs.fsstate)
		verifrt.Mark(vMarkOpBegin)
		res := lookupOrdered(op, name, parent, seen)
		m := vMonitor()
		if res == nil {
			verifrt.Assert(m.heldAtEnd == 0, "mon:refusal-releases-all")
			verifrt.Cover("refused")
			return
		}
		now, _ := dir.LookupName(res[1], op, name)
		verifrt.Assert(res[1].Inum == dx && res[1].Gen == g, "relocked-directory-is-the-handle's-object")
		verifrt.Assert(res[0].Inum == seen && now == seen, "relocked-child-is-what-the-name-denotes-now")
		verifrt.Assert(op.OwnInum(seen) && op.OwnInum(dx), "both-locked")
		verifrt.Cover("accepted")
	case 1, 2:
		// RENAME onto an existing name: 3 inodes (same directory) or 4
		fn, tn := w.vName("fn"), w.vName("tn")
		seenFrom := verifrt.Choose("seenfrom", vChildOf(2), 64)
		seenTo := verifrt.Choose("seento", 64, vChildOf(2), 2)
		verifrt.Assume(seenFrom != dx && seenTo != dx && seenFrom != seenTo)
		op := fstxn.Begin(w.nfs.fsstate)
		verifrt.Mark(vMarkOpBegin)
		inums := []uint64{dx, seenFrom, seenTo}
		toh := parent
		tx := dx
		if verifrt.Choose("site2", 1, 2) == 2 {
			_, tx = w.vLive("todir", nfstypes.NF3DIR)
			verifrt.Assume(tx != dx && tx != seenFrom && tx != seenTo)
			w.boundInode(tx, true)
			toh = fh.Fh{Ino: tx, Gen: verifrt.U64("tgen")}
			inums = []uint64{dx, tx, seenFrom, seenTo}
		}
		inodes := lockInodes(op, inums)
		if inodes == nil {
			verifrt.Cover("stale")
			return
		}
		if !validateRename(op, inodes, parent, toh, fn, tn) {
			verifrt.Cover("refused")
			return
		}
		dfrom, dto := inodes[0], inodes[0]
		if len(inums) == 4 {
			dto = inodes[1]
		}
		nf, _ := dir.LookupName(dfrom, op, fn)
		nt, _ := dir.LookupName(dto, op, tn)
		verifrt.Assert(dfrom.Inum == dx && dfrom.Gen == g && dto.Inum == tx && dto.Gen == toh.Gen, "relocked-directories-are-the-handles'-objects")
		verifrt.Assert(nf == seenFrom && nt == seenTo, "relocked-objects-are-what-the-names-denote-now")
		verifrt.Cover("accepted")
	}
}
