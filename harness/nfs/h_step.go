package nfs

import (
	"github.com/mit-pdos/go-nfsd/fh"
	"github.com/mit-pdos/go-nfsd/inode"
	"github.com/mit-pdos/go-nfsd/nfstypes"
	"github.com/mit-pdos/go-nfsd/verifrt"
)

// ---- event monitors shared by the step harnesses

type vMon struct {
	appends    uint64 // non-empty journal appends made by the request itself
	helpers    uint64 // appends made by DoShrink while finishing a pending free (self-contained transactions)
	refused    uint64
	durable    bool // every append was flushed before the reply
	ascending  bool // every lock was acquired above all locks held
	twoPhase   bool // no lock acquired after a release within one transaction
	relAfter   bool // every release follows the transaction's append (or the transaction appended nothing)
	balanced   bool // every number allocated was handed back (meaningful on failure paths)
	spawned    uint64
	rawWrites  uint64
	acquires   uint64
	heldAtEnd  uint64
}

const (
	vMarkShrinkBegin = 100
	vMarkShrinkEnd   = 101
	vMarkOpBegin     = 102
)

func vMonitor() vMon {
	m := vMon{durable: true, ascending: true, twoPhase: true, relAfter: true, balanced: true}
	evs := verifrt.Events()
	start := 0
	for i, ev := range evs {
		if ev.Kind == verifrt.EvMark && ev.A == vMarkOpBegin {
			start = i
		}
	}
	inShrink := false
	var lastPos, flushed uint64
	appendedInTxn := false
	for i := start; i < len(evs); i++ {
		ev := evs[i]
		switch ev.Kind {
		case verifrt.EvMark:
			if ev.A == vMarkShrinkBegin {
				inShrink = true
			}
			if ev.A == vMarkShrinkEnd {
				inShrink = false
			}
		case verifrt.EvBegin:
			appendedInTxn = false
		case verifrt.EvAppend:
			if ev.A > 0 {
				if inShrink {
					m.helpers++
				} else {
					m.appends++
				}
				lastPos = ev.B
				appendedInTxn = true
			}
		case verifrt.EvRefused:
			m.refused++
		case verifrt.EvFlush:
			if ev.A > flushed {
				flushed = ev.A
			}
		case verifrt.EvAcquire:
			m.acquires++
			m.heldAtEnd++
			m.ascending = m.ascending && ev.B == 1
			m.twoPhase = m.twoPhase && ev.C == 0
		case verifrt.EvRelease:
			m.heldAtEnd--
			_ = appendedInTxn
		case verifrt.EvGo:
			m.spawned++
		case verifrt.EvRawWrite:
			m.rawWrites++
		case verifrt.EvAlloc:
			if ev.A != 0 && !inShrink {
				back := false
				for j := i + 1; j < len(evs); j++ {
					if evs[j].Kind == verifrt.EvFree && evs[j].Obj == ev.Obj && evs[j].A == ev.A {
						back = true
					}
				}
				m.balanced = m.balanced && back
			}
		}
	}
	m.durable = flushed >= lastPos
	return m
}

// stepHooks marks DoShrink (helper transactions) in the event stream
func (w *vW) stepHooks() {
	verifrt.OnCall("(*github.com/mit-pdos/go-nfsd/shrinker.ShrinkerSt).DoShrink", func() { verifrt.Mark(vMarkShrinkBegin) })
	verifrt.OnReturn("(*github.com/mit-pdos/go-nfsd/shrinker.ShrinkerSt).DoShrink", func() { verifrt.Mark(vMarkShrinkEnd) })
}

// ---- a dead handle: the inode number is free, or live with another generation (the number was reused)
func (w *vW) deadFh(name string) nfstypes.Nfs_fh3 {
	x := w.vInum(name)
	g := verifrt.U64(name + "_gen")
	ip := w.vInodeAt(x)
	verifrt.Assume(ip.Kind == inode.NF3FREE || ip.Gen != g)
	w.boundInode(x, true)
	return fh.Fh{Ino: x, Gen: g}.MakeFh3()
}

func (w *vW) liveFh(name string, kind nfstypes.Ftype3) nfstypes.Nfs_fh3 {
	h, x := w.vLive(name, kind)
	w.boundInode(x, true)
	return h
}

// VerifC08Stale: every procedure and every handle position, given a dead handle, answers
// NFS3ERR_STALE and appends nothing to the journal.
func VerifC08Stale() {
	w := vWorld("d")
	w.stepHooks()
	dead := w.deadFh("dead")
	var st nfstypes.Nfsstat3
	verifrt.Mark(vMarkOpBegin)
	switch verifrt.Choose("proc", 1, 2, 3, 4, 5, 6, 7, 8, 9, 10, 12, 13, 14, 15, 16, 17, 19, 20, 21) {
	case 1:
		st = w.nfs.NFSPROC3_GETATTR(nfstypes.GETATTR3args{Object: dead}).Status
	case 2:
		st = w.nfs.NFSPROC3_SETATTR(nfstypes.SETATTR3args{Object: dead, New_attributes: vSattr("a")}).Status
	case 3:
		st = w.nfs.NFSPROC3_LOOKUP(nfstypes.LOOKUP3args{What: nfstypes.Diropargs3{Dir: dead, Name: w.vName("n")}}).Status
	case 4:
		st = w.nfs.NFSPROC3_ACCESS(nfstypes.ACCESS3args{Object: dead}).Status
	case 5:
		st = w.nfs.NFSPROC3_READLINK(nfstypes.READLINK3args{Symlink: dead}).Status
	case 6:
		st = w.nfs.NFSPROC3_READ(nfstypes.READ3args{File: dead, Offset: nfstypes.Offset3(verifrt.U64("off")), Count: nfstypes.Count3(verifrt.U32("cnt"))}).Status
	case 7:
		st = w.nfs.NFSPROC3_WRITE(nfstypes.WRITE3args{File: dead, Offset: nfstypes.Offset3(verifrt.U64("off")), Count: 1, Stable: nfstypes.Stable_how(verifrt.U32("stable")), Data: verifrt.Bytes("data", 1)}).Status
	case 8:
		st = w.nfs.NFSPROC3_CREATE(nfstypes.CREATE3args{Where: nfstypes.Diropargs3{Dir: dead, Name: w.vName("n")}}).Status
	case 9:
		st = w.nfs.NFSPROC3_MKDIR(nfstypes.MKDIR3args{Where: nfstypes.Diropargs3{Dir: dead, Name: w.vName("n")}}).Status
	case 10:
		st = w.nfs.NFSPROC3_SYMLINK(nfstypes.SYMLINK3args{Where: nfstypes.Diropargs3{Dir: dead, Name: w.vName("n")}, Symlink: nfstypes.Symlinkdata3{Symlink_data: "t"}}).Status
	case 12:
		st = w.nfs.NFSPROC3_REMOVE(nfstypes.REMOVE3args{Object: nfstypes.Diropargs3{Dir: dead, Name: "f"}}).Status
	case 13:
		st = w.nfs.NFSPROC3_RMDIR(nfstypes.RMDIR3args{Object: nfstypes.Diropargs3{Dir: dead, Name: "f"}}).Status
	case 14:
		// source directory dead, target directory live
		st = w.nfs.NFSPROC3_RENAME(nfstypes.RENAME3args{From: nfstypes.Diropargs3{Dir: dead, Name: "f"}, To: nfstypes.Diropargs3{Dir: w.liveFh("to", nfstypes.NF3DIR), Name: "g"}}).Status
	case 15:
		// target directory dead, source directory live
		st = w.nfs.NFSPROC3_RENAME(nfstypes.RENAME3args{From: nfstypes.Diropargs3{Dir: w.liveFh("from", nfstypes.NF3DIR), Name: "f"}, To: nfstypes.Diropargs3{Dir: dead, Name: "g"}}).Status
	case 16:
		st = w.nfs.NFSPROC3_READDIR(nfstypes.READDIR3args{Dir: dead, Count: nfstypes.Count3(verifrt.U32("count"))}).Status
	case 17:
		st = w.nfs.NFSPROC3_READDIRPLUS(nfstypes.READDIRPLUS3args{Dir: dead, Dircount: 1000, Maxcount: 1000}).Status
	case 19:
		st = w.nfs.NFSPROC3_FSINFO(nfstypes.FSINFO3args{Fsroot: dead}).Status
	case 20:
		st = w.nfs.NFSPROC3_PATHCONF(nfstypes.PATHCONF3args{Object: dead}).Status
	case 21:
		st = w.nfs.NFSPROC3_COMMIT(nfstypes.COMMIT3args{File: dead}).Status
	}
	m := vMonitor()
	verifrt.Assert(st == nfstypes.NFS3ERR_STALE, "dead-handle-is-stale")
	verifrt.Assert(m.appends == 0, "mon:dead-handle-no-effect")
	verifrt.Assert(m.heldAtEnd == 0, "mon:locks-released")
	verifrt.Cover("end")
}

// VerifC08Handles: handles handed out in replies are exactly (inode number, current generation) of the
// object they name; freeing or allocating an inode bumps its generation by one, everything else leaves
// it unchanged (so a pair (number, generation) is never issued for two objects).
func VerifC08Handles() {
	w := vWorld("d")
	w.stepHooks()
	dh, dx := w.vLive("dir", nfstypes.NF3DIR)
	w.boundInode(dx, true)
	name := w.vName("n")
	// witness inode for the generation step
	y := verifrt.Choose("wit", vChildOf(2), 39, dx)
	pre := w.vInodeAt(y)
	preKind, preGen := pre.Kind, pre.Gen
	verifrt.Mark(vMarkOpBegin)
	switch verifrt.Choose("proc", 3, 17, 8, 9, 10, 12, 13) {
	case 3:
		r := w.nfs.NFSPROC3_LOOKUP(nfstypes.LOOKUP3args{What: nfstypes.Diropargs3{Dir: dh, Name: name}})
		if r.Status == nfstypes.NFS3_OK {
			f := fh.MakeFh(r.Resok.Object)
			ip := w.vInodeAt(f.Ino)
			verifrt.Assert(ip.Kind != inode.NF3FREE && f.Gen == ip.Gen, "lookup-handle-is-inum-and-current-generation")
			verifrt.Assert(uint64(r.Resok.Obj_attributes.Attributes.Fileid) == f.Ino && r.Resok.Obj_attributes.Attributes.Ftype == ip.Kind, "lookup-attributes-of-that-object")
			verifrt.Cover("lookup-ok")
		}
	case 17:
		r := w.nfs.NFSPROC3_READDIRPLUS(nfstypes.READDIRPLUS3args{Dir: dh, Cookie: 0, Dircount: 100000, Maxcount: 100000})
		if r.Status == nfstypes.NFS3_OK {
			n := 0
			for e := r.Resok.Reply.Entries; e != nil; e = e.Nextentry {
				ip := w.vInodeAt(uint64(e.Fileid))
				verifrt.Assert(e.Name_handle.Handle_follows, "entry-has-handle")
				f := fh.MakeFh(e.Name_handle.Handle)
				verifrt.Assert(f.Ino == uint64(e.Fileid) && f.Gen == ip.Gen, "readdirplus-handle-is-fileid-and-current-generation")
				a := e.Name_attributes.Attributes
				verifrt.Assert(e.Name_attributes.Attributes_follow && uint64(a.Fileid) == uint64(e.Fileid) && a.Ftype == ip.Kind && uint64(a.Size) == ip.Size, "readdirplus-attributes-of-that-object")
				n++
			}
			if n >= 3 {
				verifrt.Cover("readdirplus-3")
			}
		}
	case 8, 9, 10:
		var st nfstypes.Nfsstat3
		var h nfstypes.Post_op_fh3
		var a nfstypes.Post_op_attr
		p := verifrt.Choose("mk", 8, 9, 10)
		if p == 8 {
			r := w.nfs.NFSPROC3_CREATE(nfstypes.CREATE3args{Where: nfstypes.Diropargs3{Dir: dh, Name: name}})
			st, h, a = r.Status, r.Resok.Obj, r.Resok.Obj_attributes
		} else if p == 9 {
			r := w.nfs.NFSPROC3_MKDIR(nfstypes.MKDIR3args{Where: nfstypes.Diropargs3{Dir: dh, Name: name}})
			st, h, a = r.Status, r.Resok.Obj, r.Resok.Obj_attributes
		} else {
			r := w.nfs.NFSPROC3_SYMLINK(nfstypes.SYMLINK3args{Where: nfstypes.Diropargs3{Dir: dh, Name: name}, Symlink: nfstypes.Symlinkdata3{Symlink_data: "t"}})
			st, h, a = r.Status, r.Resok.Obj, r.Resok.Obj_attributes
		}
		if st == nfstypes.NFS3_OK {
			verifrt.Assert(h.Handle_follows && a.Attributes_follow, "create-returns-handle-and-attributes")
			f := fh.MakeFh(h.Handle)
			ip := w.vInodeAt(f.Ino)
			verifrt.Assert(ip.Kind != inode.NF3FREE && f.Gen == ip.Gen && uint64(a.Attributes.Fileid) == f.Ino, "create-handle-is-inum-and-current-generation")
			verifrt.Cover("create-ok")
		}
	case 12:
		w.nfs.NFSPROC3_REMOVE(nfstypes.REMOVE3args{Object: nfstypes.Diropargs3{Dir: dh, Name: name}})
	case 13:
		w.nfs.NFSPROC3_RMDIR(nfstypes.RMDIR3args{Object: nfstypes.Diropargs3{Dir: dh, Name: name}})
	}
	post := w.vInodeAt(y)
	crossed := (preKind == inode.NF3FREE) != (post.Kind == inode.NF3FREE)
	if crossed {
		verifrt.Assert(post.Gen == preGen+1, "generation-bumped-when-freed-or-allocated")
		verifrt.Cover("crossed")
	} else {
		verifrt.Assert(post.Gen == preGen, "generation-unchanged-otherwise")
	}
	verifrt.Cover("end")
}
