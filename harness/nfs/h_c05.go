package nfs

import (
	"github.com/mit-pdos/go-nfsd/inode"
	"github.com/mit-pdos/go-nfsd/verifrt"
)

// ---- C05: freed space is reclaimed, on disk and in the running server's allocators.
//
// Decomposition (each part an inductive step from an arbitrary valid state):
//   (1) group p05 of VerifStep = C04's post-state clauses (a block no longer pointed to is unmarked, a
//       block marked by the request is pointed to, inode bitmap = live inodes, an object that lost its only
//       name is freed) PLUS the agreement of the in-memory allocators with the on-disk bitmaps after every
//       request, successful or not, at a bit position chosen by the solver;
//   (2) VerifC05Shrink: DoShrink from every pending extent within the bound, including extents that reach
//       into index blocks with holes: freeing completes, every block the object held beyond its size
//       (slots, index blocks, entries of index blocks) is unmarked on disk and in memory;
//   (3) VerifC05Restart: a server started on an arbitrary disk builds both allocators equal to the bitmaps;
//   (4) alloc.VerifAllocContract: the real first-fit allocator hands out a number exactly when one is
//       free, marks it, and FreeNum gives exactly that number back (the contract the step harnesses use).

// allocAgree: the in-memory allocators equal the bitmaps of the logical disk, at an arbitrary position.
func (w *vW) allocAgree() {
	if !verifrt.Symbolic() {
		// a native replay steers the real allocator by marking numbers used (verifrt.AllocRep): its bitmap
		// differs from the disk by construction, so the obligation has no native counterpart
		return
	}
	bbm, ibm := uint64(w.sup.BitmapBlockStart()), uint64(w.sup.BitmapInodeStart())
	n := verifrt.U64("c05_blk")
	verifrt.Assume(n < w.sup.NBlockBitmap*32768)
	mem := w.nfs.fsstate.Balloc.VerifBit(n)
	dsk := w.vBit(bbm, n, true)
	verifrt.Assert(mem == dsk, "mon:in-memory-block-allocator-equals-the-disk-bitmap")
	i := verifrt.U64("c05_ino")
	verifrt.Assume(i < w.sup.NInodeBitmap*32768)
	memi := w.nfs.fsstate.Ialloc.VerifBit(i)
	dski := w.vBit(ibm, i, true)
	verifrt.Assert(memi == dski, "mon:in-memory-inode-allocator-equals-the-disk-bitmap")
}

// allocAgreeAt: the same agreement at the concrete positions a request can have touched (the blocks of the
// captured inodes' slots, the allocation candidates, the captured inode numbers): reads at concrete
// positions cost no solver time, and within bound R_addr no other position is written by the request.
func (w *vW) allocAgreeAt(c *v04) {
	if !verifrt.Symbolic() {
		return
	}
	bbm, ibm := uint64(w.sup.BitmapBlockStart()), uint64(w.sup.BitmapInodeStart())
	okb, oki := true, true
	for f := uint64(0); f < w.nballoc+1; f++ {
		okb = vAnd(okb, w.nfs.fsstate.Balloc.VerifBit(7000+f) == w.vBit(bbm, 7000+f, true))
	}
	for _, x := range c.nums {
		for i := uint64(0); i < 10; i++ {
			cb := vBlockOf(x, i)
			okb = vAnd(okb, w.nfs.fsstate.Balloc.VerifBit(cb) == w.vBit(bbm, cb, true))
		}
		oki = vAnd(oki, w.nfs.fsstate.Ialloc.VerifBit(x) == w.vBit(ibm, x, true))
	}
	verifrt.Assert(okb, "mon:in-memory-block-allocator-equals-the-disk-bitmap")
	verifrt.Assert(oki, "mon:in-memory-inode-allocator-equals-the-disk-bitmap")
}

// VerifC05Restart: MakeNfs on an arbitrary formatted disk (installed log): both allocators are the
// bitmaps on disk.
func VerifC05Restart() {
	w := vWorld("d")
	w.allocAgree()
	verifrt.Cover("end")
}

// vEntry reads entry j of index block b on the initial disk and assumes the representative range and I2
// (an entry is 0 or a marked block of the range reserved for entries) on it.
func (w *vW) vEntry(b uint64, j uint64, present bool) uint64 {
	e := vLe64(w.d.Init(b), 8*j)
	mx := uint64(w.sup.MaxBnum())
	// bound R_addr: entry j of an index block is a hole or the representative block 7500+j
	_ = mx
	verifrt.Assume(!present || e == 0 || e == 7500+j)
	bbm := uint64(w.sup.BitmapBlockStart())
	mk := w.vBit(bbm, e%w.d.Sz, false)
	verifrt.Assume(!present || e == 0 || mk)
	return e
}

// VerifC05Shrink: finishing a pending free gives everything back. Inode x (live or already freed) still
// owns blocks beyond its size: direct slots, the indirect block with entries (some of them holes), or the
// double-indirect root. After DoShrink the extent equals the size, and every block x held beyond its size -
// through a slot or through an entry of the indirect block, and the index block itself once nothing below
// it remains - is unmarked on disk and in the running server's allocator.
func VerifC05Shrink() {
	w := vWorld("d")
	w.stepHooks()
	x := w.vInum("f")
	verifrt.Assume(x >= 2)
	ip := w.vInodeAt(x)
	nblk := (ip.Size + 4095) / 4096
	bb := verifrt.Param("bblocks", 2)
	var top uint64
	if verifrt.Param("c05ext", 0) == 1 {
		top = verifrt.Choose("extent", 9, 10, 1, 8, 521)
	} else {
		top = verifrt.Choose("extent", 9, 10, 1, 8)
	}
	verifrt.Assume(ip.ShrinkSize == top && top > nblk && top-nblk <= bb)
	c := &v04{}
	w.pre04(c, x)
	bbm := uint64(w.sup.BitmapBlockStart())
	// the entries of the indirect block that lie in the pending range
	ind := ip.VerifBlks()[inode.INDIRECT]
	var ents []uint64
	var entPos []uint64
	if top > inode.NDIRECT && top <= inode.NDIRECT+inode.NBLKBLK {
		for bn := uint64(inode.NDIRECT); bn < top; bn++ {
			e := w.vEntry(vBlockOf(x, inode.INDIRECT), bn-inode.NDIRECT, ind != 0)
			for _, o := range ents {
				verifrt.Assume(e == 0 || e != o) // I3
			}
			if ind != 0 && e == 0 {
				// fork on hole / present: on either side the entry has one concrete value
				e = 0
			} else if ind != 0 {
				e = 7500 + (bn - inode.NDIRECT)
			}
			ents = append(ents, e)
			entPos = append(entPos, bn)
		}
	}
	pre := make([]uint64, 10)
	for i := 0; i < 10; i++ {
		pre[i] = ip.VerifBlks()[i]
	}
	ok := w.nfs.shrinkst.DoShrink(x)
	verifrt.Assert(ok, "shrink-transactions-commit")
	np := w.quietInodeAt(x)
	verifrt.Assert(np.ShrinkSize == (np.Size+4095)/4096 && np.Size == ip.Size, "freeing-completes")
	// slots: a slot at or beyond the new extent is empty, and its block is free on disk and in memory
	for i := uint64(0); i < 10; i++ {
		beyond := i >= nblk
		if i == inode.INDIRECT {
			beyond = nblk <= inode.NDIRECT
		} else if i == inode.DINDIRECT {
			beyond = nblk <= inode.NDIRECT+inode.NBLKBLK
		}
		if !beyond {
			continue
		}
		cb := vBlockOf(x, i)
		verifrt.Assert(np.VerifBlks()[i] == 0, "no-block-held-beyond-the-size")
		if i == inode.DINDIRECT && top > inode.NDIRECT+inode.NBLKBLK+1 {
			continue
		}
		dsk := w.vBit(bbm, cb, true)
		mem := w.nfs.fsstate.Balloc.VerifBit(cb)
		verifrt.Assert(pre[i] != cb || (!dsk && !mem), "block-given-back-on-disk-and-in-memory")
	}
	// entries of the indirect block in the pending range
	for k, e := range ents {
		if entPos[k] < nblk || ind == 0 {
			continue
		}
		dsk := w.vBit(bbm, e%w.d.Sz, true)
		mem := w.nfs.fsstate.Balloc.VerifBit(e % w.d.Sz)
		verifrt.Assert(e == 0 || (!dsk && !mem), "block-behind-an-index-entry-given-back-on-disk-and-in-memory")
		if e != 0 {
			verifrt.Cover("entry-freed")
		}
		if e == 0 {
			verifrt.Cover("entry-hole")
		}
	}
	w.allocAgree()
	r := &v04res{}
	w.post04(c, r)
	r.settle()
	verifrt.Cover("end")
}
