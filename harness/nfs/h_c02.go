package nfs

import (
	"github.com/mit-pdos/go-nfsd/dir"
	"github.com/mit-pdos/go-nfsd/fh"
	"github.com/mit-pdos/go-nfsd/inode"
	"github.com/mit-pdos/go-nfsd/nfstypes"
	"github.com/mit-pdos/go-nfsd/verifrt"
)

// ---- C02: refinement step against the reference file system, through the public procedures only.
//
// The reference file system is a map name -> object per directory and, per regular file, a size and a
// byte per offset. A harness brackets ONE mutating request, executed symbolically from an arbitrary valid
// state, between observing requests (GETATTR / READ / LOOKUP / READLINK) on a WITNESS (a byte offset, a
// name) chosen by the solver: the reply of the mutator and the observation afterwards must be what the
// reference computes from the observation before and the arguments. One passing step from an arbitrary
// valid state covers the last request of every history (the invariant is C04's obligation).

func vAllocFailed() bool {
	if !verifrt.Symbolic() {
		// the event record exists under the symbolic executor only; a native replay follows the path
		return true
	}
	for _, ev := range verifrt.Events() {
		if ev.Kind == verifrt.EvAlloc && ev.A == 0 {
			return true
		}
	}
	return false
}

// vReadByte: READ of one byte at off. present = a byte was returned.
func (w *vW) vReadByte(h nfstypes.Nfs_fh3, off uint64) (st nfstypes.Nfsstat3, present bool, b byte, eof bool) {
	r := w.nfs.NFSPROC3_READ(nfstypes.READ3args{File: h, Offset: nfstypes.Offset3(off), Count: 1})
	if r.Status != nfstypes.NFS3_OK {
		return r.Status, false, 0, false
	}
	verifrt.Assert(uint64(r.Resok.Count) == uint64(len(r.Resok.Data)) && len(r.Resok.Data) <= 1, "read-count-is-the-data-length-and-at-most-requested")
	if len(r.Resok.Data) == 1 {
		return r.Status, true, r.Resok.Data[0], r.Resok.Eof
	}
	return r.Status, false, 0, r.Resok.Eof
}

func vLe64(b []byte, o uint64) uint64 {
	var v uint64
	for i := uint64(0); i < 8; i++ {
		v |= uint64(b[o+i]) << (8 * i)
	}
	return v
}

// VerifC02Data: sizes follow writes and truncations; READ returns exactly the byte last written at the
// witness offset, the old byte where the request did not write, zero in holes and gaps, and nothing at or
// beyond the size; the post-operation attributes in the mutator's reply carry the new size; a request
// fails only when the reference says it cannot be performed (beyond the maximum file size, or the
// allocator is exhausted) and then changes nothing.
func VerifC02Data() {
	w := vWorld("d")
	w.stepHooks()
	h, x := w.vLive("f", nfstypes.NF3REG)
	ip := w.boundInode(x, true)
	s0 := ip.Size
	// the witness offset: a representative block of the direct or the indirect range, boundary byte
	var wblk uint64
	if verifrt.Param("wblks", 2) >= 3 {
		wblk = verifrt.Choose("wblk", 0, 8, 520)
	} else {
		wblk = verifrt.Choose("wblk", 0, 8)
	}
	wq := verifrt.Choose("wbyte", 0, 1, 4095)
	wo := wblk*4096 + wq
	// I7 on the witness: a byte at or beyond the size in a block that is present is zero (no shrink is
	// pending here, so by I4 such a block is the last block of the file and the byte lies in its tail)
	verifrt.Assume(ip.ShrinkSize <= (s0+4095)/4096)
	if wblk == 0 {
		p := ip.VerifBlks()[0]
		verifrt.Assume(wo < s0 || p == 0 || w.d.Peek(vBlockOf(x, 0))[wq] == 0)
	} else if wblk == 8 {
		ib := ip.VerifBlks()[inode.INDIRECT]
		if verifrt.Forced(ib == 0) {
		} else {
			e := vLe64(w.d.Peek(vBlockOf(x, inode.INDIRECT)), 0)
			ds, mx := uint64(w.sup.DataStart()), uint64(w.sup.MaxBnum())
			_ = ds
			verifrt.Assume(ib == 0 || e == 0 || (e >= 7500 && e < mx))
			verifrt.Assume(wo < s0 || ib == 0 || e == 0 || w.d.Peek(e)[wq] == 0)
		}
	} else {
		// double-indirect witness: only offsets below the size are observed before the request
		verifrt.Assume(wo < s0 || ip.VerifBlks()[inode.DINDIRECT] == 0)
	}
	verifrt.Mark(vMarkOpBegin)
	// ---- observe
	g0 := w.nfs.NFSPROC3_GETATTR(nfstypes.GETATTR3args{Object: h})
	verifrt.Assert(g0.Status == nfstypes.NFS3_OK && uint64(g0.Resok.Obj_attributes.Size) == s0 && g0.Resok.Obj_attributes.Ftype == nfstypes.NF3REG &&
		uint64(g0.Resok.Obj_attributes.Fileid) == x, "getattr-reports-the-object")
	st0, have0, b0, eof0 := w.vReadByte(h, wo)
	verifrt.Assert(st0 == nfstypes.NFS3_OK, "read-ok")
	short0 := vAllocFailed() // a hole that cannot be filled may give a short read
	verifrt.Assert(!have0 || wo < s0, "read-returns-nothing-at-or-beyond-the-size")
	verifrt.Assert(have0 || wo >= s0 || short0, "mon:read-returns-the-byte-below-the-size-unless-space-ran-out")
	verifrt.Assert(!eof0 || wo+1 >= s0, "eof-only-at-the-end")
	verifrt.Assert(wo < s0 || eof0, "read-at-or-beyond-the-size-signals-eof")
	if short0 && !have0 && wo < s0 {
		verifrt.Cover("short")
		return
	}
	// ---- mutate
	var st nfstypes.Nfsstat3
	var s1 uint64
	var after nfstypes.Post_op_attr
	written := false // the witness byte was written by the request
	var wb byte
	legal := true
	switch verifrt.Choose("proc", pWRITE, pSETATTR) {
	case pWRITE:
		n := verifrt.U64("datalen")
		verifrt.Assume(n <= verifrt.Param("bbytes", 2))
		off := vOffset("off")
		verifrt.Assume(off%4096+n <= 4096)
		data := verifrt.Bytes("data", n)
		r := w.nfs.NFSPROC3_WRITE(nfstypes.WRITE3args{File: h, Offset: nfstypes.Offset3(off), Count: nfstypes.Count3(n), Stable: nfstypes.FILE_SYNC, Data: data})
		st, after = r.Status, r.Resok.File_wcc.After
		legal = off+n >= off && off+n <= inode.MaxFileSize()
		c := uint64(r.Resok.Count)
		s1 = s0
		if st == nfstypes.NFS3_OK {
			verifrt.Assert(c <= n, "write-count-at-most-requested")
			verifrt.Assert(c == n || vAllocFailed(), "mon:short-write-only-when-space-runs-out")
			if off+c > s0 && c > 0 {
				s1 = off + c
			}
			if wo >= off && wo-off < c {
				written = true
				wb = data[wo-off]
			}
		}
	case pSETATTR:
		var a nfstypes.Sattr3
		a.Size.Set_it = true
		ns := vOffset("size")
		oldb, newb := (s0+4095)/4096, (ns+4095)/4096
		bb := verifrt.Param("bblocks", 1)
		verifrt.Assume(newb >= oldb || oldb-newb <= bb || oldb-newb >= 511)
		a.Size.Size = nfstypes.Size3(ns)
		r := w.nfs.NFSPROC3_SETATTR(nfstypes.SETATTR3args{Object: h, New_attributes: a})
		st, after = r.Status, r.Resok.Obj_wcc.After
		legal = ns <= inode.MaxFileSize()
		s1 = s0
		if st == nfstypes.NFS3_OK {
			s1 = ns
		}
	}
	failedAlloc := vAllocFailed()
	if st == nfstypes.NFS3_OK {
		verifrt.Assert(legal, "request-the-reference-refuses-is-refused")
		verifrt.Assert(after.Attributes_follow && uint64(after.Attributes.Size) == s1 && uint64(after.Attributes.Fileid) == x, "reply-carries-the-new-size")
		verifrt.Cover("ok")
	} else {
		verifrt.Assert(!legal || failedAlloc, "mon:request-fails-only-when-the-reference-refuses-it")
		verifrt.Cover("refused")
	}
	// ---- observe again
	g1 := w.nfs.NFSPROC3_GETATTR(nfstypes.GETATTR3args{Object: h})
	verifrt.Assert(g1.Status == nfstypes.NFS3_OK && uint64(g1.Resok.Obj_attributes.Size) == s1, "size-follows-writes-and-truncations")
	st1, have1, b1, eof1 := w.vReadByte(h, wo)
	verifrt.Assert(st1 == nfstypes.NFS3_OK, "read-ok")
	verifrt.Assert(!have1 || wo < s1, "read-returns-nothing-at-or-beyond-the-size")
	verifrt.Assert(have1 || wo >= s1 || vAllocFailed(), "mon:read-returns-the-byte-below-the-size-unless-space-ran-out")
	verifrt.Assert(!eof1 || wo+1 >= s1, "eof-only-at-the-end")
	if have1 {
		var want byte
		if written {
			want = wb
			verifrt.Cover("written")
		} else if have0 {
			want = b0
			verifrt.Cover("kept")
		} else {
			want = 0
			verifrt.Cover("gap")
		}
		verifrt.Assert(b1 == want, "read-returns-the-byte-last-written-or-zero")
	}
	verifrt.Cover("end")
}

type vLook struct {
	st   nfstypes.Nfsstat3
	ino  uint64
	gen  uint64
	kind nfstypes.Ftype3
	size uint64
}

func (w *vW) vLookup(dh nfstypes.Nfs_fh3, name nfstypes.Filename3) vLook {
	r := w.nfs.NFSPROC3_LOOKUP(nfstypes.LOOKUP3args{What: nfstypes.Diropargs3{Dir: dh, Name: name}})
	if r.Status != nfstypes.NFS3_OK {
		return vLook{st: r.Status}
	}
	verifrt.Assert(len(r.Resok.Object.Data) == 16 && r.Resok.Obj_attributes.Attributes_follow, "lookup-returns-a-handle-and-attributes")
	f := fh.MakeFh(r.Resok.Object)
	a := r.Resok.Obj_attributes.Attributes
	verifrt.Assert(uint64(a.Fileid) == f.Ino, "lookup-attributes-are-those-of-the-handle's-object")
	return vLook{st: r.Status, ino: f.Ino, gen: f.Gen, kind: a.Ftype, size: uint64(a.Size)}
}

func vSameLook(a, b vLook) bool {
	if a.st != b.st {
		return false
	}
	if a.st != nfstypes.NFS3_OK {
		return true
	}
	return a.ino == b.ino && a.gen == b.gen && a.kind == b.kind
}

// VerifC02Names: a name resolves to exactly the object last created or renamed there; removed and
// replaced objects disappear (their handles become stale); other names are not disturbed; a request fails
// exactly when the reference (a map name -> object) refuses it, and then changes nothing.
func VerifC02Names() {
	w := vWorld("d")
	w.stepHooks()
	dh, dx := w.vLive("dir", nfstypes.NF3DIR)
	w.boundInode(dx, true)
	// the pre-state clauses of C04's group: bitmaps agree, a file has one link, a directory's link count
	// is one plus its sub-directories (I5b, I10, I11), on the directory, its representative child and the
	// two allocation candidates
	c04 := &v04{}
	w.pre04(c04, 39, 71)
	c04.dirs = append(c04.dirs, dx)
	w.pre04(c04, dx, vChildIn(dx, 2))
	if w.dirSlots > 3 {
		w.pre04(c04, vChildIn(dx, 3))
	}
	w.pre04links(c04)
	n := w.vName("n")
	proc := verifrt.Choose("proc", pCREATE, pMKDIR, pSYMLINK, pREMOVE, pRMDIR, pRENAME)
	var n2 nfstypes.Filename3
	t := n
	if proc == pRENAME {
		n2 = w.vName("tn")
		switch verifrt.Choose("track", 0, 1, 2) {
		case 1:
			t = n2
		case 2:
			t = w.vName("o")
			verifrt.Assume(t != n && t != n2)
		}
	} else if verifrt.Choose("track", 0, 2) == 2 {
		t = w.vName("o")
		verifrt.Assume(t != n)
	}
	dot := n == "." || n == ".."
	dot2 := n2 == "." || n2 == ".."
	verifrt.Mark(vMarkOpBegin)
	// ---- observe: what n and the tracked name denote
	lf := w.vLookup(dh, n)
	l0 := lf
	if t != n {
		l0 = w.vLookup(dh, t)
	}
	var l2 vLook
	if proc == pRENAME && t != n2 {
		l2 = w.vLookup(dh, n2)
	} else if proc == pRENAME {
		l2 = l0
	}
	verifrt.Assert(lf.st == nfstypes.NFS3_OK || lf.st == nfstypes.NFS3ERR_NOENT, "lookup-finds-the-name-or-not")
	exists := lf.st == nfstypes.NFS3_OK
	// emptiness of the object n denotes, from its directory block (abstraction function)
	empty := true
	if exists && lf.kind == nfstypes.NF3DIR && proc == pRMDIR {
		cx := verifrt.Choose("child", vChildIn(dx, 2), vChildIn(dx, 3), vChildIn(dx, 1), dx, 1)
		verifrt.Assume(cx == lf.ino)
		cip := w.vInodeAt(cx)
		blk := w.d.Peek(vBlockOf(cx, 0))
		for s := uint64(2); s < w.dirSlots; s++ {
			c, _ := dir.VerifSlot(blk, s)
			if s*128 < cip.Size && c != 0 {
				empty = false
			}
		}
	}
	// ---- mutate
	var st nfstypes.Nfsstat3
	var newh nfstypes.Post_op_fh3
	var newa nfstypes.Post_op_attr
	tgt := nfstypes.Nfspath3(verifrt.String("tgt", 2))
	switch proc {
	case pCREATE:
		r := w.nfs.NFSPROC3_CREATE(nfstypes.CREATE3args{Where: nfstypes.Diropargs3{Dir: dh, Name: n}, How: nfstypes.Createhow3{Mode: nfstypes.Createmode3(verifrt.Choose("how", 0, 1))}})
		st, newh, newa = r.Status, r.Resok.Obj, r.Resok.Obj_attributes
	case pMKDIR:
		r := w.nfs.NFSPROC3_MKDIR(nfstypes.MKDIR3args{Where: nfstypes.Diropargs3{Dir: dh, Name: n}})
		st, newh, newa = r.Status, r.Resok.Obj, r.Resok.Obj_attributes
	case pSYMLINK:
		r := w.nfs.NFSPROC3_SYMLINK(nfstypes.SYMLINK3args{Where: nfstypes.Diropargs3{Dir: dh, Name: n}, Symlink: nfstypes.Symlinkdata3{Symlink_data: tgt}})
		st, newh, newa = r.Status, r.Resok.Obj, r.Resok.Obj_attributes
	case pREMOVE:
		st = w.nfs.NFSPROC3_REMOVE(nfstypes.REMOVE3args{Object: nfstypes.Diropargs3{Dir: dh, Name: n}}).Status
	case pRMDIR:
		st = w.nfs.NFSPROC3_RMDIR(nfstypes.RMDIR3args{Object: nfstypes.Diropargs3{Dir: dh, Name: n}}).Status
	case pRENAME:
		st = w.nfs.NFSPROC3_RENAME(nfstypes.RENAME3args{From: nfstypes.Diropargs3{Dir: dh, Name: n}, To: nfstypes.Diropargs3{Dir: dh, Name: n2}}).Status
	}
	ok := st == nfstypes.NFS3_OK
	nospace := vAllocFailed()
	// ---- the reference decides whether the request can be performed
	switch proc {
	case pCREATE, pMKDIR, pSYMLINK:
		verifrt.Assert(!ok || (!exists && !dot), "creating-an-existing-name-is-refused")
		verifrt.Assert(!exists || dot || st == nfstypes.NFS3ERR_EXIST, "existing-name-answers-EXIST")
		verifrt.Assert(ok || exists || dot || nospace, "mon:new-name-is-created-unless-space-runs-out")
	case pREMOVE:
		verifrt.Assert(!ok || (exists && !dot && lf.kind != nfstypes.NF3DIR), "remove-needs-an-existing-non-directory")
		verifrt.Assert(exists || dot || st == nfstypes.NFS3ERR_NOENT, "missing-name-answers-NOENT")
		verifrt.Assert(ok || !exists || dot || lf.kind == nfstypes.NF3DIR, "existing-file-is-removed")
	case pRMDIR:
		verifrt.Assert(!ok || (exists && !dot && lf.kind == nfstypes.NF3DIR && empty), "rmdir-needs-an-existing-empty-directory")
		verifrt.Assert(exists || dot || st == nfstypes.NFS3ERR_NOENT, "missing-name-answers-NOENT")
		verifrt.Assert(ok || !exists || dot || lf.kind != nfstypes.NF3DIR || !empty, "existing-empty-directory-is-removed")
	case pRENAME:
		verifrt.Assert(!ok || (exists && !dot && !dot2), "rename-needs-an-existing-source-and-legal-names")
		verifrt.Assert(exists || dot || dot2 || st == nfstypes.NFS3ERR_NOENT, "missing-name-answers-NOENT")
		verifrt.Assert(ok || !exists || dot || dot2 || l2.st == nfstypes.NFS3_OK || nospace, "mon:rename-to-a-free-name-succeeds")
		if ok && l2.st == nfstypes.NFS3_OK && !(l2.ino == lf.ino) {
			verifrt.Assert(l2.kind == lf.kind, "rename-replaces-an-object-of-the-same-kind-only")
		}
	}
	// ---- observe again
	l1 := w.vLookup(dh, t)
	want := l0
	if ok {
		switch proc {
		case pCREATE, pMKDIR, pSYMLINK:
			verifrt.Assert(newh.Handle_follows && newa.Attributes_follow, "create-returns-handle-and-attributes")
			nf := fh.MakeFh(newh.Handle)
			k := nfstypes.NF3REG
			if proc == pMKDIR {
				k = nfstypes.NF3DIR
			} else if proc == pSYMLINK {
				k = nfstypes.NF3LNK
			}
			verifrt.Assert(newa.Attributes.Ftype == k && uint64(newa.Attributes.Fileid) == nf.Ino, "reply-describes-the-new-object")
			if t == n {
				want = vLook{st: nfstypes.NFS3_OK, ino: nf.Ino, gen: nf.Gen, kind: k}
			}
			// the new object is what the reference says: an empty file, the link target, an empty
			// directory whose '..' is the parent
			switch proc {
			case pCREATE:
				g := w.nfs.NFSPROC3_GETATTR(nfstypes.GETATTR3args{Object: newh.Handle})
				verifrt.Assert(g.Status == nfstypes.NFS3_OK && g.Resok.Obj_attributes.Size == 0 && g.Resok.Obj_attributes.Ftype == nfstypes.NF3REG, "created-file-is-empty")
			case pSYMLINK:
				rl := w.nfs.NFSPROC3_READLINK(nfstypes.READLINK3args{Symlink: newh.Handle})
				verifrt.Assert(rl.Status == nfstypes.NFS3_OK && rl.Resok.Data == tgt, "readlink-returns-the-target")
			case pMKDIR:
				up := w.vLookup(newh.Handle, "..")
				verifrt.Assert(up.st == nfstypes.NFS3_OK && up.ino == dx, "dotdot-of-the-new-directory-is-the-parent")
			}
			verifrt.Cover("created")
		case pREMOVE, pRMDIR:
			if t == n {
				want = vLook{st: nfstypes.NFS3ERR_NOENT}
			}
			old := fh.Fh{Ino: lf.ino, Gen: lf.gen}.MakeFh3()
			g := w.nfs.NFSPROC3_GETATTR(nfstypes.GETATTR3args{Object: old})
			verifrt.Assert(g.Status == nfstypes.NFS3ERR_STALE, "removed-object-disappears")
			verifrt.Cover("removed")
		case pRENAME:
			same := n == n2 || (l2.st == nfstypes.NFS3_OK && l2.ino == lf.ino)
			if !same {
				if t == n2 {
					want = lf
				} else if t == n {
					want = vLook{st: nfstypes.NFS3ERR_NOENT}
				}
				if l2.st == nfstypes.NFS3_OK {
					old := fh.Fh{Ino: l2.ino, Gen: l2.gen}.MakeFh3()
					g := w.nfs.NFSPROC3_GETATTR(nfstypes.GETATTR3args{Object: old})
					verifrt.Assert(g.Status == nfstypes.NFS3ERR_STALE, "replaced-object-disappears")
					verifrt.Cover("replaced")
				}
			}
			verifrt.Cover("renamed")
		}
	} else {
		verifrt.Cover("refused")
	}
	verifrt.Assert(vSameLook(l1, want), "name-resolves-as-the-reference-says")
	verifrt.Cover("end")
}

// VerifC02Lookup: LOOKUP against the directory block for a FULL one-block directory (32 slots, all live)
// whose names all have the maximum length the server announces (or length 1): whatever name is asked for,
// LOOKUP finds exactly what a scan of the block finds. The name cache is cold, so it is rebuilt from the
// disk first, as after a restart, an eviction or an aborted request (C10). Slot contents are concrete
// (slot s names inode 300+s under a name starting with byte 'A'+s, padded with 'x'); the name looked up
// is symbolic.
func VerifC02Lookup() {
	w := vWorld("d")
	w.cmp = 1
	dh, dx := w.vLive("dir", nfstypes.NF3DIR)
	ip := w.vInodeAt(dx)
	L := verifrt.Choose("namelen", 112, 1)
	K := uint64(32)
	verifrt.Assume(ip.Size == K*128 && ip.VerifBlks()[0] == vBlockOf(dx, 0) && ip.ShrinkSize <= 1)
	blk := w.d.Peek(vBlockOf(dx, 0))
	for s := uint64(0); s < K; s++ {
		o := s * 128
		inum, l := dir.VerifSlot(blk, s)
		if s == 0 {
			verifrt.Assume(inum == dx && l == 1 && blk[o+16] == '.')
			continue
		}
		if s == 1 {
			verifrt.Assume(inum == 1 && l == 2 && blk[o+16] == '.' && blk[o+17] == '.')
			continue
		}
		verifrt.Assume(inum == 300+s && l == L && blk[o+16] == byte('A'+s))
		for i := uint64(1); i < L; i++ {
			verifrt.Assume(blk[o+16+i] == 'x')
		}
		// the named child is live
		a := w.sup.Inum2Addr(300 + s)
		ib := w.d.Peek(a.Blkno)
		verifrt.Assume(ib[a.Off/8] == 1 && ib[a.Off/8+1] == 0 && ib[a.Off/8+2] == 0 && ib[a.Off/8+3] == 0)
	}
	t := nfstypes.Filename3(verifrt.Name("t", L, 1))
	want := w.vNamedIn(blk, ip.Size, K, t)
	r := w.nfs.NFSPROC3_LOOKUP(nfstypes.LOOKUP3args{What: nfstypes.Diropargs3{Dir: dh, Name: t}})
	if want == 0 {
		verifrt.Assert(r.Status == nfstypes.NFS3ERR_NOENT, "name-not-in-the-directory-answers-NOENT")
		verifrt.Cover("absent")
	} else {
		verifrt.Assert(r.Status == nfstypes.NFS3_OK, "name-in-the-directory-is-found")
		f := fh.MakeFh(r.Resok.Object)
		verifrt.Assert(f.Ino == want, "lookup-finds-what-the-directory-block-says")
		if want == 300+K-1 {
			verifrt.Cover("last-slot")
		}
		verifrt.Cover("found")
	}
	verifrt.Cover("end")
}
