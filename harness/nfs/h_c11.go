package nfs

import (
	"github.com/mit-pdos/go-nfsd/fh"
	"github.com/mit-pdos/go-nfsd/inode"
	"github.com/mit-pdos/go-nfsd/nfstypes"
	"github.com/mit-pdos/go-nfsd/verifrt"
)

// C11: every procedure on unconstrained arguments returns a reply (no panic, no memory exhaustion, no
// self-deadlock, no loop beyond its bound), from an arbitrary valid file system.

// anyFh returns an arbitrary handle, in one of three flavours that together cover every byte string of
// 0..64 bytes (up to the representative in-block slots R_slot):
//   0: 16 bytes naming inode 32q+r (q < 1024, r in R_slot) with an arbitrary generation;
//   1: 16 bytes with an inode number >= 32768 (beyond the inode table), otherwise arbitrary;
//   2: a length other than 16, arbitrary content.
// For flavour 0 the inode number is returned so that the harness can bound data-proportional loops.
func (w *vW) anyFh(name string) (nfstypes.Nfs_fh3, uint64, bool) {
	switch verifrt.Choose(name+"_flavour", 0, 1, 2) {
	case 0:
		x := w.vInum(name)
		g := verifrt.U64(name + "_gen")
		return fh.Fh{Ino: x, Gen: g}.MakeFh3(), x, true
	case 1:
		x := verifrt.U64(name + "_ino")
		verifrt.Assume(x >= 32768)
		g := verifrt.U64(name + "_gen")
		return fh.Fh{Ino: x, Gen: g}.MakeFh3(), x, false
	}
	n := verifrt.U64(name + "_len")
	verifrt.Assume(n <= 64 && n != 16)
	return nfstypes.Nfs_fh3{Data: verifrt.Bytes(name, n)}, 0, false
}

// boundMoved assumes that a transfer of cnt bytes at off on the file named by flavour-0 handle x moves
// at most B_bytes bytes (or nothing), and that the inode has at most B_blocks blocks pending to free.
func (w *vW) boundInode(x uint64, ok bool) *inode.Inode {
	if !ok {
		return nil
	}
	ip := w.vInodeAt(x)
	bb := verifrt.Param("bblocks", 2)
	nblk := (ip.Size + 4095) / 4096
	verifrt.Assume(ip.ShrinkSize <= nblk || ip.ShrinkSize-nblk <= bb)
	return ip
}

// h is anyFh without the extra results, with the pending-shrink bound applied.
func (w *vW) h(name string) nfstypes.Nfs_fh3 {
	f, x, ok := w.anyFh(name)
	w.boundInode(x, ok)
	return f
}

func vSattr(name string) nfstypes.Sattr3 {
	var s nfstypes.Sattr3
	if verifrt.Param("plainattrs", 0) == 0 {
		// mode/uid/gid are only logged by the server; the quick tier leaves them unset
		s.Mode.Set_it = verifrt.Bool(name + "_mode_set")
		s.Mode.Mode = nfstypes.Mode3(verifrt.U32(name + "_mode"))
		s.Uid.Set_it = verifrt.Bool(name + "_uid_set")
		s.Gid.Set_it = verifrt.Bool(name + "_gid_set")
	}
	s.Size.Set_it = verifrt.Bool(name + "_size_set")
	s.Size.Size = nfstypes.Size3(verifrt.U64(name + "_size"))
	if verifrt.Param("timeattrs", 1) == 0 {
		// quick tier: only the modification time may be set (one of the two symmetrical time fields)
		s.Mtime.Set_it = nfstypes.Time_how(verifrt.U32(name + "_mtime_how"))
		s.Mtime.Mtime.Seconds = nfstypes.Uint32(verifrt.U32(name + "_mtime_s"))
		return s
	}
	s.Atime.Set_it = nfstypes.Time_how(verifrt.U32(name + "_atime_how"))
	s.Atime.Atime.Seconds = nfstypes.Uint32(verifrt.U32(name + "_atime_s"))
	s.Atime.Atime.Nseconds = nfstypes.Uint32(verifrt.U32(name + "_atime_ns"))
	s.Mtime.Set_it = nfstypes.Time_how(verifrt.U32(name + "_mtime_how"))
	s.Mtime.Mtime.Seconds = nfstypes.Uint32(verifrt.U32(name + "_mtime_s"))
	s.Mtime.Mtime.Nseconds = nfstypes.Uint32(verifrt.U32(name + "_mtime_ns"))
	return s
}

func cov(st nfstypes.Nfsstat3) {
	if st == nfstypes.NFS3_OK {
		verifrt.Cover("ok")
	} else {
		verifrt.Cover("err")
	}
}

func VerifC11Getattr() {
	w := vWorld("d")
	r := w.nfs.NFSPROC3_GETATTR(nfstypes.GETATTR3args{Object: w.h("fh")})
	cov(r.Status)
}

func VerifC11Setattr() {
	w := vWorld("d")
	f, x, ok := w.anyFh("fh")
	a := vSattr("a")
	if verifrt.Param("repsizes", 1) == 1 {
		// sizes from the boundary representatives of the block map (or any size beyond it)
		a.Size.Size = nfstypes.Size3(vOffset("size"))
	}
	if ip := w.boundInode(x, ok); ip != nil {
		// bound B_blocks: a truncation frees at most bblocks blocks inline, or is large enough (>= 511
		// blocks) to be handed to the background shrinker, which this harness does not run
		bb := verifrt.Param("bblocks", 2)
		oldb, newb := (ip.Size+4095)/4096, (uint64(a.Size.Size)+4095)/4096
		verifrt.Assume(!a.Size.Set_it || newb >= oldb || oldb-newb <= bb || oldb-newb >= 511)
	}
	r := w.nfs.NFSPROC3_SETATTR(nfstypes.SETATTR3args{Object: f, New_attributes: a})
	cov(r.Status)
}

func VerifC11Lookup() {
	w := vWorld("d")
	r := w.nfs.NFSPROC3_LOOKUP(nfstypes.LOOKUP3args{What: nfstypes.Diropargs3{Dir: w.h("fh"), Name: w.vName("n")}})
	cov(r.Status)
}

func VerifC11Access() {
	w := vWorld("d")
	r := w.nfs.NFSPROC3_ACCESS(nfstypes.ACCESS3args{Object: w.h("fh"), Access: nfstypes.Uint32(verifrt.U32("acc"))})
	cov(r.Status)
}

func VerifC11Readlink() {
	w := vWorld("d")
	r := w.nfs.NFSPROC3_READLINK(nfstypes.READLINK3args{Symlink: w.h("fh")})
	cov(r.Status)
}

func VerifC11Read() {
	w := vWorld("d")
	f, x, ok := w.anyFh("fh")
	off, cnt := vOffset("off"), verifrt.U32("cnt")
	if ip := w.boundInode(x, ok); ip != nil {
		// bound B_bytes: the read moves at most bbytes bytes (offset and count themselves are unconstrained)
		bb := verifrt.Param("bbytes", 4)
		verifrt.Assume(off >= ip.Size || uint64(cnt) <= bb || ip.Size-off <= bb)
	}
	r := w.nfs.NFSPROC3_READ(nfstypes.READ3args{File: f, Offset: nfstypes.Offset3(off), Count: nfstypes.Count3(cnt)})
	cov(r.Status)
}

func VerifC11Write() {
	w := vWorld("d")
	n := verifrt.U64("datalen")
	verifrt.Assume(n <= verifrt.Param("bbytes", 4))
	stable := nfstypes.Stable_how(verifrt.U32("stable"))
	if verifrt.Param("fixstable", 0) == 1 {
		stable = nfstypes.FILE_SYNC
	}
	off := vOffset("off")
	if verifrt.Param("oneblock", 0) == 1 {
		// bound B_blocks = 1: the bytes written lie in one block
		verifrt.Assume(off%4096+n <= 4096)
	}
	r := w.nfs.NFSPROC3_WRITE(nfstypes.WRITE3args{File: w.h("fh"), Offset: nfstypes.Offset3(off),
		Count: nfstypes.Count3(verifrt.U32("cnt")), Stable: stable, Data: verifrt.Bytes("data", n)})
	cov(r.Status)
}

func VerifC11Create() {
	w := vWorld("d")
	r := w.nfs.NFSPROC3_CREATE(nfstypes.CREATE3args{Where: nfstypes.Diropargs3{Dir: w.h("fh"), Name: w.vName("n")},
		How: nfstypes.Createhow3{Mode: nfstypes.Createmode3(verifrt.U32("how")), Obj_attributes: vSattr("a")}})
	cov(r.Status)
}

func VerifC11Mkdir() {
	w := vWorld("d")
	r := w.nfs.NFSPROC3_MKDIR(nfstypes.MKDIR3args{Where: nfstypes.Diropargs3{Dir: w.h("fh"), Name: w.vName("n")}, Attributes: vSattr("a")})
	cov(r.Status)
}

func VerifC11Symlink() {
	w := vWorld("d")
	n := verifrt.U64("tgtlen")
	verifrt.Assume(n <= verifrt.Param("bbytes", 4))
	r := w.nfs.NFSPROC3_SYMLINK(nfstypes.SYMLINK3args{Where: nfstypes.Diropargs3{Dir: w.h("fh"), Name: w.vName("n")},
		Symlink: nfstypes.Symlinkdata3{Symlink_attributes: vSattr("a"), Symlink_data: nfstypes.Nfspath3(verifrt.String("tgt", n))}})
	cov(r.Status)
}

func VerifC11Mknod() {
	w := vWorld("d")
	r := w.nfs.NFSPROC3_MKNOD(nfstypes.MKNOD3args{Where: nfstypes.Diropargs3{Dir: w.h("fh"), Name: w.vName("n")}})
	verifrt.Assert(r.Status == nfstypes.NFS3ERR_NOTSUPP, "notsupp")
	verifrt.Cover("err")
}

func VerifC11Remove() {
	w := vWorld("d")
	r := w.nfs.NFSPROC3_REMOVE(nfstypes.REMOVE3args{Object: nfstypes.Diropargs3{Dir: w.h("fh"), Name: w.vName("n")}})
	cov(r.Status)
}

func VerifC11Rmdir() {
	w := vWorld("d")
	r := w.nfs.NFSPROC3_RMDIR(nfstypes.RMDIR3args{Object: nfstypes.Diropargs3{Dir: w.h("fh"), Name: w.vName("n")}})
	cov(r.Status)
}

func VerifC11Rename() {
	w := vWorld("d")
	from := w.h("from")
	var to nfstypes.Nfs_fh3
	if verifrt.Choose("samedir", 0, 1) == 1 {
		to = from
	} else {
		to = w.h("to")
	}
	r := w.nfs.NFSPROC3_RENAME(nfstypes.RENAME3args{From: nfstypes.Diropargs3{Dir: from, Name: w.vName("fn")}, To: nfstypes.Diropargs3{Dir: to, Name: w.vName("tn")}})
	cov(r.Status)
}

func VerifC11Link() {
	w := vWorld("d")
	r := w.nfs.NFSPROC3_LINK(nfstypes.LINK3args{File: w.h("fh"), Link: nfstypes.Diropargs3{Dir: w.h("dir"), Name: w.vName("n")}})
	verifrt.Assert(r.Status == nfstypes.NFS3ERR_NOTSUPP, "notsupp")
	verifrt.Cover("err")
}

func VerifC11Readdir() {
	w := vWorld("d")
	r := w.nfs.NFSPROC3_READDIR(nfstypes.READDIR3args{Dir: w.h("fh"), Cookie: nfstypes.Cookie3(verifrt.U64("cookie")), Count: nfstypes.Count3(verifrt.U32("count"))})
	cov(r.Status)
}

func VerifC11Readdirplus() {
	w := vWorld("d")
	r := w.nfs.NFSPROC3_READDIRPLUS(nfstypes.READDIRPLUS3args{Dir: w.h("fh"), Cookie: nfstypes.Cookie3(verifrt.U64("cookie")),
		Dircount: nfstypes.Count3(verifrt.U32("dircount")), Maxcount: nfstypes.Count3(verifrt.U32("maxcount"))})
	cov(r.Status)
}

func VerifC11Fsstat() {
	w := vWorld("d")
	r := w.nfs.NFSPROC3_FSSTAT(nfstypes.FSSTAT3args{Fsroot: w.h("fh")})
	verifrt.Assert(r.Status == nfstypes.NFS3ERR_NOTSUPP, "notsupp")
	verifrt.Cover("err")
}

func VerifC11Fsinfo() {
	w := vWorld("d")
	r := w.nfs.NFSPROC3_FSINFO(nfstypes.FSINFO3args{Fsroot: w.h("fh")})
	cov(r.Status)
}

func VerifC11Pathconf() {
	w := vWorld("d")
	r := w.nfs.NFSPROC3_PATHCONF(nfstypes.PATHCONF3args{Object: w.h("fh")})
	cov(r.Status)
}

func VerifC11Commit() {
	w := vWorld("d")
	r := w.nfs.NFSPROC3_COMMIT(nfstypes.COMMIT3args{File: w.h("fh"), Offset: nfstypes.Offset3(verifrt.U64("off")), Count: nfstypes.Count3(verifrt.U32("cnt"))})
	cov(r.Status)
}

func VerifC11Mount() {
	w := vWorld("d")
	w.nfs.NFSPROC3_NULL()
	w.nfs.MOUNTPROC3_NULL()
	n := verifrt.U64("pathlen")
	verifrt.Assume(n <= 8)
	p := nfstypes.Dirpath3(verifrt.String("path", n))
	m := w.nfs.MOUNTPROC3_MNT(p)
	verifrt.Assert(m.Fhs_status == nfstypes.MNT3_OK && len(m.Mountinfo.Fhandle) == 16, "mnt-root-handle")
	w.nfs.MOUNTPROC3_UMNT(p)
	w.nfs.MOUNTPROC3_UMNTALL()
	w.nfs.MOUNTPROC3_DUMP()
	ex := w.nfs.MOUNTPROC3_EXPORT()
	verifrt.Assert(ex.P != nil && ex.P.Ex_dir == "/", "export-root")
	// the root handle handed out by MNT resolves
	r := w.nfs.NFSPROC3_GETATTR(nfstypes.GETATTR3args{Object: nfstypes.Nfs_fh3{Data: m.Mountinfo.Fhandle}})
	verifrt.AssertK(r.Status == nfstypes.NFS3_OK, "mnt-handle-resolves", "", false)
	verifrt.Cover("end")
}
