package nfs

import (
	"os"
	"github.com/mit-pdos/go-nfsd/fh"
	"github.com/mit-pdos/go-nfsd/dir"
	"github.com/mit-pdos/go-nfsd/inode"
	"github.com/mit-pdos/go-nfsd/nfstypes"
	"github.com/mit-pdos/go-nfsd/verifrt"
)

// ---- C04: inductive step for the structural invariant.
//
// Group p04 of VerifStep asserts, on the logical disk AFTER one symbolic RPC from an arbitrary state
// satisfying Inv, the same clauses that are assumed of the pre-state, for every inode the request can
// have touched (its handle(s), the representative children, the representative allocation results):
//   W1 inode shape (I1): valid kind, link count, size/extent, directory size granularity
//   W2 pointers (I2/I3/I4): every slot is 0, the slot's own pre-state block, or a block allocated by this
//      request; no fresh block appears twice; no pointer at or beyond the extent
//   W3 bitmaps (I2/I5): a block pointed to is marked, a block this inode dropped is unmarked; an inode is
//      marked iff it is live
//   W4 directories (I6): slot shape, '.' and '..', unique names, one name per object, named children live
//   W5 names and objects move together: a created object is named exactly once under the requested name;
//      a removed name is gone and its object lost exactly one link (freed at zero); a freed directory was
//      empty; a renamed object is named at the target only, '..' follows a directory to its new parent
// Everything is stated without the event monitor, so counterexamples replay natively.

type v04 struct {
	nums   []uint64
	kind   []nfstypes.Ftype3
	nlink  []uint32
	gen    []uint64
	blks   [][]uint64
	dirblk [][]byte
	size   []uint64
	aux    []bool // captured for the pre-state assumptions only
	auxNext bool
	dirs   []uint64 // W4 is evaluated for these (the request's directory handles and the allocation results); other captured directories are not written by the request
}

func vAnd(a, b bool) bool { return a && b }
func vImp(a, b bool) bool { return !a || b }

// vBit reads bit n of the bitmap starting at block start, on the initial (post=false) or current disk.
func (w *vW) vBit(start, n uint64, post bool) bool {
	b := start + n/32768
	var blk []byte
	if post {
		blk = w.d.Peek(b)
	} else {
		blk = w.d.Init(b)
	}
	return blk[(n%32768)/8]&(1<<(n%8)) != 0
}

// pre04 decodes the pre-state of the listed inode numbers (instantiating Inv on them, plus the clauses
// only this group needs: marked pointers, inode bitmap, link counts) and snapshots what W5 compares.
func (w *vW) pre04(c *v04, nums ...uint64) {
	bbm, ibm := uint64(w.sup.BitmapBlockStart()), uint64(w.sup.BitmapInodeStart())
	for _, x := range nums {
		dup := x == 0
		for _, y := range c.nums {
			dup = dup || y == x
		}
		if dup {
			continue
		}
		ip := w.vInodeAt(x)
		live := ip.Kind != inode.NF3FREE
		if x >= 2 {
			// I5: the inode bitmap marks exactly the live inodes
			ib := w.vBit(ibm, x, false)
			verifrt.Assume(ib == live)
		}
		// I10: a name is a link; LINK is not supported, so a file or symlink has one name, and a
		// directory counts its own '.' as well
		verifrt.Assume(!live || ip.Kind == nfstypes.NF3DIR || ip.Nlink == 1)
		verifrt.Assume(ip.Kind != nfstypes.NF3DIR || ip.Nlink >= 1)
		bl := make([]uint64, 10)
		for i := uint64(0); i < 10; i++ {
			p := ip.VerifBlks()[i]
			bl[i] = p
			// I2: a block pointed to is marked in use
			mk := w.vBit(bbm, vBlockOf(x, i), false)
			verifrt.Assume(p == 0 || mk)
		}
		isdir := ip.Kind == nfstypes.NF3DIR
		w.assumeDir(ip, isdir)
		c.nums = append(c.nums, x)
		c.kind = append(c.kind, ip.Kind)
		c.nlink = append(c.nlink, ip.Nlink)
		c.gen = append(c.gen, ip.Gen)
		c.blks = append(c.blks, bl)
		c.dirblk = append(c.dirblk, w.d.Peek(vBlockOf(x, 0)))
		c.size = append(c.size, ip.Size)
		c.aux = append(c.aux, c.auxNext)
	}
}

// pre04links assumes I11 on every captured directory (after all inodes of the request are captured): a
// directory's link count is one (its entry in the parent) plus the number of its sub-directories.
func (w *vW) pre04links(c *v04) {
	if verifrt.Param("p04links", 1) == 0 {
		return
	}
	for j, x := range c.nums {
		sub := w.subdirs(c, x, c.dirblk[j], c.size[j], w.dirSlots, false)
		verifrt.Assume(c.kind[j] != nfstypes.NF3DIR || c.nlink[j] == 1+sub)
	}
}

// kindIsDir reads the kind field of inode n (a concrete number) straight from the inode table.
func (w *vW) kindIsDir(n uint64, post bool) bool {
	a := w.sup.Inum2Addr(n)
	var ib []byte
	if post {
		ib = w.d.Peek(a.Blkno)
	} else {
		ib = w.d.Init(a.Blkno)
	}
	o := a.Off / 8
	k0, k1, k2, k3 := ib[o], ib[o+1], ib[o+2], ib[o+3]
	return k0 == 2 && k1 == 0 && k2 == 0 && k3 == 0
}

// subdirs counts the sub-directories named by the slots (from slot 2, below size) of directory x: a
// slot's child is read at its concrete candidates (the captured inodes and the slot's representative).
func (w *vW) subdirs(c *v04, x uint64, blk []byte, size uint64, nslots uint64, post bool) uint32 {
	var n uint32
	for s := uint64(2); s < nslots; s++ {
		ch, _ := dir.VerifSlot(blk, s)
		isd := false
		rep := vChildIn(x, s)
		seen := false
		for _, y := range c.nums {
			if y == rep {
				seen = true
			}
			yd := w.kindIsDir(y, post)
			isd = isd || (ch == y && yd)
		}
		if !seen {
			rd := w.kindIsDir(rep, post)
			isd = isd || (ch == rep && rd)
		}
		in := s*128 < size && isd
		n += uint32(verifrt.IteU64(in, 1, 0))
	}
	return n
}

func (c *v04) idx(x uint64) int {
	for i, y := range c.nums {
		if y == x {
			return i
		}
	}
	return -1
}

// vNamed: the inode number the first nslots slots of a directory block give to name (0 = none); the
// first matching slot wins, as in dir.ScanName.
func (w *vW) vNamed(blk []byte, nslots uint64, name nfstypes.Filename3) uint64 {
	var r uint64
	for s := nslots; s > 0; s-- {
		c, _ := dir.VerifSlot(blk, s-1)
		eq := dir.VerifSlotNameEq(blk, s-1, string(name), w.cmp)
		hit := c != 0 && eq
		r = verifrt.IteU64(hit, c, r)
	}
	return r
}

// vNameCount: how many slots (below size) carry the name.
func (w *vW) vNameCount(blk []byte, size uint64, nslots uint64, name nfstypes.Filename3) uint64 {
	var n uint64
	for s := uint64(0); s < nslots; s++ {
		c, _ := dir.VerifSlot(blk, s)
		eq := dir.VerifSlotNameEq(blk, s, string(name), w.cmp)
		hit := s*128 < size && c != 0 && eq
		n += verifrt.IteU64(hit, 1, 0)
	}
	return n
}

// vCount: how many of the first nslots slots (from slot 2) name inode x.
func vCount(blk []byte, size uint64, nslots uint64, x uint64) uint64 {
	var n uint64
	for s := uint64(2); s < nslots; s++ {
		c, _ := dir.VerifSlot(blk, s)
		n += verifrt.IteU64(s*128 < size && c == x, 1, 0)
	}
	return n
}

// v04res holds the clauses of W1-W4 evaluated on the post-state (one boolean per label).
type v04res struct {
	label []string
	val   []bool
}

func (r *v04res) add(label string, v bool) {
	r.label = append(r.label, label)
	r.val = append(r.val, v)
}

// settle asserts the clauses: first their conjunction in one query (the common case: entailed), and only
// if that is not entailed each clause under its own label.
func (r *v04res) settle() {
	all := true
	for _, v := range r.val {
		all = vAnd(all, v)
	}
	if !verifrt.Symbolic() && os.Getenv("VERIF_DEBUG04") != "" {
		for i, v := range r.val {
			println("clause", r.label[i], v)
		}
	}
	if verifrt.Forced(all) {
		return
	}
	for i, v := range r.val {
		verifrt.Assert(v, r.label[i])
	}
}

// post04 evaluates W1-W4 on every captured inode, on the current logical disk.
func (w *vW) post04(c *v04, r *v04res) {
	bbm, ibm := uint64(w.sup.BitmapBlockStart()), uint64(w.sup.BitmapInodeStart())
	ds, mx := uint64(w.sup.DataStart()), uint64(w.sup.MaxBnum())
	// the allocation counters are kept by call hooks, which only exist under the symbolic executor; a
	// native replay looks at all candidates (the clauses are stated over disk states, not over counters)
	nfresh, nial := w.nballoc, w.nialloc
	if !verifrt.Symbolic() {
		nfresh, nial = 4, 2
	}
	bbm0 := uint64(w.sup.BitmapBlockStart())
	shape, extent, own, marked, dropped, ibit, nlk := true, true, true, true, true, true, true
	hasblk, dirok, alive, links := true, true, true, true
	hasIndex := false
	freshUse := make([]uint64, nfresh)
	freshBit := make([]bool, nfresh)
	freshNew := make([]bool, nfresh) // marked by this request: unmarked before, marked now
	for f := uint64(0); f < nfresh; f++ {
		freshBit[f] = w.vBit(bbm, 7000+f, true)
		was := w.vBit(bbm0, 7000+f, false)
		freshNew[f] = freshBit[f] && !was
	}
	posts := make([]*inode.Inode, len(c.nums))
	for j, x := range c.nums {
		posts[j] = w.quietInodeAt(x)
	}
	for j, x := range c.nums {
		// inodes the request cannot have written are skipped: an allocation result that was not handed
		// out, and captured inodes that are neither a handle of the request nor a child of its directories
		if (x == 39 && nial < 1) || (x == 71 && nial < 2) || c.aux[j] {
			continue
		}
		ip := posts[j]
		k := ip.Kind
		live := k != inode.NF3FREE
		shape = vAnd(shape, k == inode.NF3FREE || k == nfstypes.NF3REG || k == nfstypes.NF3DIR || k == nfstypes.NF3LNK)
		shape = vAnd(shape, ip.Size <= inode.MaxFileSize())
		shape = vAnd(shape, vImp(k == nfstypes.NF3DIR, ip.Size%128 == 0 && ip.Size >= 256))
		shape = vAnd(shape, vImp(!live, ip.Size == 0))
		nblk := (ip.Size + 4095) / 4096
		ext := verifrt.IteU64(nblk > ip.ShrinkSize, nblk, ip.ShrinkSize)
		extent = vAnd(extent, ip.ShrinkSize <= inode.NDIRECT+inode.NBLKBLK+inode.NBLKBLK*inode.NBLKBLK)
		nlk = vAnd(nlk, vImp(live && k != nfstypes.NF3DIR, ip.Nlink == 1))
		nlk = vAnd(nlk, vImp(k == nfstypes.NF3DIR, ip.Nlink >= 1))
		if x >= 2 {
			ib := w.vBit(ibm, x, true)
			ibit = vAnd(ibit, ib == live)
		}
		for i := uint64(0); i < 10; i++ {
			p := ip.VerifBlks()[i]
			cblk := vBlockOf(x, i)
			cbit := w.vBit(bbm, cblk, true)
			isOwn := p == cblk && c.blks[j][i] == cblk
			isFresh := false
			for f := uint64(0); f < nfresh; f++ {
				hit := p == 7000+f
				isFresh = isFresh || hit
				freshUse[f] += verifrt.IteU64(hit, 1, 0)
				marked = vAnd(marked, vImp(hit, freshBit[f]))
			}
			own = vAnd(own, p == 0 || isOwn || isFresh)
			own = vAnd(own, p == 0 || (p >= ds && p < mx))
			marked = vAnd(marked, vImp(p == cblk, cbit))
			dropped = vAnd(dropped, vImp(c.blks[j][i] == cblk && p != cblk, !cbit))
			if i < inode.NDIRECT {
				extent = vAnd(extent, p == 0 || i < ext)
			}
		}
		hasIndex = hasIndex || ip.VerifBlks()[inode.INDIRECT] != 0 || ip.VerifBlks()[inode.DINDIRECT] != 0
		extent = vAnd(extent, ip.VerifBlks()[inode.INDIRECT] == 0 || ext > inode.NDIRECT)
		extent = vAnd(extent, ip.VerifBlks()[inode.DINDIRECT] == 0 || ext > inode.NDIRECT+inode.NBLKBLK)
		// W4 directories: the block is read at its concrete candidates (the slot's own block, or a block
		// allocated by this request); a block that is neither fails the ownership clause above
		isd := false
		for _, y := range c.dirs {
			isd = isd || y == x
		}
		if !isd && x != 39 && x != 71 {
			continue
		}
		// a directory of the request, or one this request created (free before, live now)
		g := k == nfstypes.NF3DIR && (isd || c.kind[j] == inode.NF3FREE)
		b0 := ip.VerifBlks()[0]
		hasblk = vAnd(hasblk, !g || b0 != 0)
		nslots := w.dirSlots + 1
		if verifrt.Param("p04links", 1) == 1 {
			sub := w.subdirs(c, x, w.blk0At(ip), ip.Size, nslots, true)
			links = vAnd(links, !g || ip.Nlink == 1+sub)
		}
		for cand := uint64(0); cand <= nfresh; cand++ {
			cb := vBlockOf(x, 0)
			if cand > 0 {
				cb = 7000 + cand - 1
			}
			gc := g && b0 == cb
			blk := w.d.Peek(cb)
			okd := dir.VerifDirBlockOk(gc, blk, nslots, ip.Size, x, uint64(w.sup.NInode()), 0)
			dirok = vAnd(dirok, okd)
			for s := uint64(2); s < nslots; s++ {
				ch, _ := dir.VerifSlot(blk, s)
				// a named child is one of the captured inodes, and is live
				liveCh := false
				for j2, y := range c.nums {
					liveCh = liveCh || (ch == y && posts[j2].Kind != inode.NF3FREE)
				}
				alive = vAnd(alive, !gc || s*128 >= ip.Size || ch == 0 || liveCh)
			}
		}
	}
	once, used := true, true
	for f := uint64(0); f < nfresh; f++ {
		once = vAnd(once, freshUse[f] <= 1)
		// C05, no leak on success: a block this request marked in use is pointed to. Blocks reached
		// through index blocks are not followed here, so the clause is stated for requests that leave
		// no index block in the inodes they wrote.
		used = vAnd(used, !freshNew[f] || freshUse[f] >= 1 || hasIndex)
	}
	r.add("post:inode-well-formed", shape)
	r.add("post:no-pointer-beyond-the-extent", extent)
	r.add("post:pointer-is-the-slot's-own-block-or-freshly-allocated", own)
	r.add("post:fresh-block-has-one-owner", once)
	r.add("post:block-marked-by-this-request-is-pointed-to", used)
	r.add("post:block-pointed-to-is-marked-in-use", marked)
	r.add("post:block-no-longer-pointed-to-is-marked-free", dropped)
	r.add("post:inode-bitmap-marks-exactly-the-live-inodes", ibit)
	r.add("post:link-count-consistent", nlk)
	r.add("post:directory-has-its-block", hasblk)
	r.add("post:directory-block-well-formed", dirok)
	r.add("post:named-child-is-live", alive)
	r.add("post:directory-link-count-is-one-plus-its-subdirectories", links)
}

// freedDirWasEmpty: an inode that went from live directory to free had no entries besides '.' and '..'
// (otherwise its children have lost their only path from the root).
func (w *vW) freedDirWasEmpty(c *v04, r *v04res) {
	ok := true
	for j, x := range c.nums {
		ip := w.quietInodeAt(x)
		gone := c.kind[j] == nfstypes.NF3DIR && (ip.Kind == inode.NF3FREE || ip.Gen != c.gen[j])
		for s := uint64(2); s < w.dirSlots; s++ {
			ch, _ := dir.VerifSlot(c.dirblk[j], s)
			ok = vAnd(ok, !gone || s*128 >= c.size[j] || ch == 0)
		}
	}
	r.add("post:freed-directory-was-empty", ok)
}

// dirAt: post-state directory block and size of inode x.
func (w *vW) dirAt(x uint64) ([]byte, uint64, *inode.Inode) {
	ip := w.quietInodeAt(x)
	return w.blk0At(ip), ip.Size, ip
}

// blk0At: the first data block of a (post-state) inode, read at its concrete candidates.
func (w *vW) blk0At(ip *inode.Inode) []byte {
	b0 := ip.VerifBlks()[0]
	blk := w.d.Peek(vBlockOf(ip.Inum, 0))
	nf := w.nballoc
	if !verifrt.Symbolic() {
		nf = 4
	}
	for f := uint64(0); f < nf; f++ {
		blk = verifrt.Ite(b0 == 7000+f, w.d.Peek(7000+f), blk)
	}
	return blk
}

// vNamedIn is vNamed restricted to the slots below size.
func (w *vW) vNamedIn(blk []byte, size uint64, nslots uint64, name nfstypes.Filename3) uint64 {
	var r uint64
	for s := nslots; s > 0; s-- {
		c, _ := dir.VerifSlot(blk, s-1)
		eq := dir.VerifSlotNameEq(blk, s-1, string(name), w.cmp)
		hit := (s-1)*128 < size && c != 0 && eq
		r = verifrt.IteU64(hit, c, r)
	}
	return r
}

func (w *vW) gone(c *v04, x uint64) bool {
	j := c.idx(x)
	ip := w.quietInodeAt(x)
	return ip.Kind == inode.NF3FREE || (j >= 0 && ip.Gen != c.gen[j])
}

// names04 (W5): after a successful namespace request, names and objects have moved together.
func (w *vW) names04(c *v04, proc uint64, dx1, dx2 uint64, name, name2 nfstypes.Filename3, newh nfstypes.Post_op_fh3) {
	ns := w.dirSlots + 1
	switch proc {
	case pCREATE, pMKDIR, pSYMLINK:
		n := fh.MakeFh(newh.Handle).Ino
		blk, size, _ := w.dirAt(dx1)
		nm := w.vNamedIn(blk, size, ns, name)
		verifrt.Assert(newh.Handle_follows && n != 0 && nm == n, "post:created-object-is-named-as-requested")
		cnt := vCount(blk, size, ns, n)
		verifrt.Assert(cnt == 1, "post:created-object-has-exactly-one-name")
		nc := w.vNameCount(blk, size, ns, name)
		verifrt.Assert(nc == 1, "post:name-is-unique-in-its-directory")
		ip := w.quietInodeAt(n)
		want := nfstypes.NF3REG
		if proc == pMKDIR {
			want = nfstypes.NF3DIR
		} else if proc == pSYMLINK {
			want = nfstypes.NF3LNK
		}
		verifrt.Assert(ip.Kind == want && ip.Nlink == 1, "post:created-object-has-its-kind-and-one-link")
		if proc == pMKDIR {
			cb := w.blk0At(ip)
			up, _ := dir.VerifSlot(cb, 1)
			verifrt.Assert(up == dx1, "post:dotdot-names-the-parent")
		}
		verifrt.Cover("w5-create")
	case pREMOVE, pRMDIR:
		j := c.idx(dx1)
		if j < 0 {
			return
		}
		blk, size, _ := w.dirAt(dx1)
		nm := w.vNamedIn(blk, size, ns, name)
		verifrt.Assert(nm == 0, "post:removed-name-is-gone")
		ch := verifrt.Choose("removed", vChildIn(dx1, 2), vChildIn(dx1, 3))
		was := w.vNamed(c.dirblk[j], w.dirSlots, name)
		verifrt.Assume(ch == was)
		// LINK is not supported: the removed name was the object's only one
		gn := w.gone(c, ch)
		verifrt.Assert(gn, "post:object-that-lost-its-only-name-is-freed")
		verifrt.Cover("w5-remove")
	case pRENAME:
		j1, j2 := c.idx(dx1), c.idx(dx2)
		if j1 < 0 || j2 < 0 {
			return
		}
		cf := w.vNamed(c.dirblk[j1], w.dirSlots, name)
		ct := w.vNamed(c.dirblk[j2], w.dirSlots, name2)
		b1, s1, _ := w.dirAt(dx1)
		b2, s2, _ := w.dirAt(dx2)
		n2 := w.vNamedIn(b2, s2, ns, name2)
		verifrt.Assert(cf != 0 && n2 == cf, "post:renamed-object-is-named-at-the-target")
		same := dx1 == dx2 && ct == cf
		n1 := w.vNamedIn(b1, s1, ns, name)
		verifrt.Assert(same || n1 == 0, "post:old-name-is-gone")
		tot := vCount(b2, s2, ns, cf)
		if dx1 != dx2 {
			tot += vCount(b1, s1, ns, cf)
		}
		verifrt.Assert(tot == 1, "post:renamed-object-has-exactly-one-name")
		nc := w.vNameCount(b2, s2, ns, name2)
		verifrt.Assert(nc == 1, "post:name-is-unique-in-its-directory")
		if ct != 0 && ct != cf {
			ctc := verifrt.Choose("replaced", vChildIn(dx2, 2), vChildIn(dx2, 3))
			verifrt.Assume(ctc == ct)
			gn := w.gone(c, ctc)
			verifrt.Assert(gn, "post:replaced-object-is-freed")
			verifrt.Cover("w5-replace")
		}
		if dx1 != dx2 {
			cfc := verifrt.Choose("moved", vChildIn(dx1, 2), vChildIn(dx1, 3))
			verifrt.Assume(cfc == cf)
			mp := w.quietInodeAt(cfc)
			if mp.Kind == nfstypes.NF3DIR {
				cb := w.blk0At(mp)
				up, _ := dir.VerifSlot(cb, 1)
				verifrt.Assert(up == dx2, "post:dotdot-follows-a-moved-directory")
				verifrt.Cover("w5-moved-dir")
			}
		}
		verifrt.Cover("w5-rename")
	}
}

// VerifC04Shrink: the helper transactions that finish a pending shrink (DoShrink, run by the background
// shrinker thread and by requests that meet a half-freed inode), from an arbitrary valid state in which
// inode x (live or already freed) still owns blocks beyond its size: when DoShrink returns the extent
// equals the size (C05: freeing completes), the inode and bitmaps satisfy Inv again, and every block the
// inode no longer points to is marked free (C05: nothing is lost) - each transaction on its own is
// covered because DoShrink is executed from every pending extent within the bound.
func VerifC04Shrink() {
	w := vWorld("d")
	w.stepHooks()
	x := w.vInum("f")
	verifrt.Assume(x >= 2)
	ip := w.vInodeAt(x)
	nblk := (ip.Size + 4095) / 4096
	verifrt.Assume(ip.ShrinkSize > nblk)
	// bound B_blocks on the pending extent, at the boundary representatives of the block map
	bb := verifrt.Param("bblocks", 2)
	top := verifrt.Choose("extent", 1, 8, 9, 520, 521)
	verifrt.Assume(ip.ShrinkSize == top && ip.ShrinkSize-nblk <= bb)
	c := &v04{}
	w.pre04(c, x)
	ok := w.nfs.shrinkst.DoShrink(x)
	verifrt.Assert(ok, "shrink-transactions-commit")
	np := w.quietInodeAt(x)
	verifrt.Assert(np.ShrinkSize == (np.Size+4095)/4096, "freeing-completes")
	verifrt.Assert(np.Size == ip.Size && np.Kind == ip.Kind && np.Gen == ip.Gen && np.Nlink == ip.Nlink, "shrink-changes-nothing-else")
	r := &v04res{}
	w.post04(c, r)
	r.settle()
	verifrt.Cover("end")
}
