package nfs

import (
	"github.com/mit-pdos/go-journal/alloc"
	"github.com/mit-pdos/go-journal/buf"
	"github.com/mit-pdos/go-journal/common"
	"github.com/mit-pdos/go-nfsd/dir"
	"github.com/mit-pdos/go-nfsd/fh"
	"github.com/mit-pdos/go-nfsd/inode"
	"github.com/mit-pdos/go-nfsd/nfstypes"
	"github.com/mit-pdos/go-nfsd/super"
	"github.com/mit-pdos/go-nfsd/verifrt"
)

var vZeroBlock = make([]byte, 4096)

// vW is "an arbitrary valid file system": a symbolic logical disk with an empty (fully installed)
// log and a live root directory, on which the real MakeNfs has been run.
type vW struct {
	nfs *Nfs
	d   *verifrt.Disk
	sup *super.FsSuper
	// bounds
	dirSlots uint64
	lnkMax   uint64
	cmp      uint64
	// seen pointer locations for I3 instantiation
	ptrBlk []uint64
	ptrOff []uint64
	ptrVal []uint64
	allocd []uint64
	dirsDone []*inode.Inode
}

func vWorld(name string) *vW {
	sz := verifrt.Param("disksz", 10000)
	return vWorldOn(verifrt.NewDisk(name, sz))
}

func vWorldOn(d *verifrt.Disk) *vW {
	// empty log: end == start (any position below 2^12)
	h0 := d.Init(0)
	h1 := d.Init(1)
	for i := 0; i < 8; i++ {
		verifrt.Assume(h0[i] == h1[i])
	}
	verifrt.Assume(h0[2] == 0 && h0[3] == 0 && h0[4] == 0 && h0[5] == 0 && h0[6] == 0 && h0[7] == 0 && h0[1] < 16)
	w := &vW{d: d, dirSlots: verifrt.Param("dirslots", 3), lnkMax: verifrt.Param("lnkmax", 8), cmp: verifrt.Param("namecmp", 2)}
	s := super.MkFsSuper(d)
	w.sup = s
	// I1/I6: inode 1 is a live directory (so MakeNfs does not format)
	w.hooks()
	w.nfs = MakeNfs(d)
	return w
}

// hooks installs the Inv instantiation points.
func (w *vW) hooks() {
	ds, mx := uint64(w.sup.DataStart()), uint64(w.sup.MaxBnum())
	verifrt.OnReturn("github.com/mit-pdos/go-nfsd/inode.Decode", func(ip *inode.Inode) {
		inode.VerifAssumeInvLocal(ip, ds, mx, w.dirSlots, w.lnkMax)
		if ip.Inum == common.ROOTINUM {
			verifrt.Assume(ip.Kind == nfstypes.NF3DIR)
		}
		if ip.Inum == 0 {
			verifrt.Assume(ip.Kind == inode.NF3FREE)
		}
		for i := 0; i < 10; i++ {
			p := ip.VerifBlks()[i]
			w.assumeMarked(p)
			// redundant lemma (I2 + allocator contract): blocks handed out earlier in this request were
			// free, hence differ from every pointer of the pre-state
			for _, n := range w.allocd {
				verifrt.Assume(p == 0 || p != n)
			}
			w.ptrVal = append(w.ptrVal, p)
		}
	})
	// I6 is instantiated lazily, when an inode is first used as a directory
	for _, f := range []string{"LookupName", "AddName", "RemName", "IsDirEmpty", "Apply", "ApplyEnts", "ScanName", "InitDir"} {
		verifrt.OnCall("github.com/mit-pdos/go-nfsd/dir."+f, func(dip *inode.Inode) {
			if dip != nil {
				for _, seen := range w.dirsDone {
					if seen == dip {
						return
					}
				}
				w.dirsDone = append(w.dirsDone, dip)
				w.assumeDir(dip, dip.Kind == nfstypes.NF3DIR && dip.Size != 0)
			}
		})
	}
	// allocator results (contract + Inv): a free block number lies in the data region (mkfs marks every
	// other block, C15), is all-zero (I7) and unreferenced (I2/I3: referenced blocks are marked); a free
	// inode number lies in [2, NInode) and names a free inode (I5). Bound R_slot: the in-block slot of an
	// allocated inode is the representative 7.
	verifrt.OnReturn("(*github.com/mit-pdos/go-journal/alloc.Alloc).AllocNum", func(a *alloc.Alloc, n uint64) {
		if w.nfs == nil {
			return
		}
		if a == w.nfs.fsstate.Balloc {
			verifrt.Assume(n == 0 || (n >= ds && n < mx))
			for _, p := range w.ptrVal {
				verifrt.Assume(n == 0 || n != p)
			}
			for _, m := range w.allocd {
				verifrt.Assume(n == 0 || n != m)
			}
			w.allocd = append(w.allocd, n)
			if verifrt.Param("zeroalloc", 1) == 1 {
				verifrt.Assume(n == 0 || verifrt.BytesEq(w.d.Peek(n), vZeroBlock))
			}
		} else {
			verifrt.Assume(n == 0 || (n >= 2 && n < uint64(w.sup.NInode()) && n%32 == 7))
			if n != 0 {
				ip := w.vInodeAt(n)
				verifrt.Assume(ip.Kind == inode.NF3FREE)
			}
		}
	})
	// I2 for the entries of indirect blocks
	verifrt.OnReturn("(*github.com/mit-pdos/go-journal/buf.Buf).BnumGet", func(p uint64) {
		verifrt.Assume(p == 0 || (p >= ds && p < mx))
		w.assumeMarked(p)
	})
}

// vInodeAt decodes inode x from the current logical disk (no events, no cache).
func (w *vW) vInodeAt(x uint64) *inode.Inode {
	a := w.sup.Inum2Addr(x)
	blk := w.d.Peek(a.Blkno)
	return inode.Decode(buf.MkBufLoad(a, common.INODESZ*8, blk), x)
}

// vInum returns a symbolic inode number 32*q + r with r a representative in-block slot.
func (w *vW) vInum(name string) uint64 {
	q := uint64(verifrt.U32(name + "_q"))
	verifrt.Assume(q < 1024)
	var r uint64
	switch verifrt.Param("slots", 1) {
	case 32:
		r = verifrt.Choose(name+"_r", 0, 1, 2, 3, 4, 5, 6, 7, 8, 9, 10, 11, 12, 13, 14, 15, 16, 17, 18, 19, 20, 21, 22, 23, 24, 25, 26, 27, 28, 29, 30, 31)
	case 3:
		r = verifrt.Choose(name+"_r", 1, 0, 31)
	default:
		r = 1
	}
	return q*32 + r
}

// vLive returns the handle of an arbitrary live inode of the given kind (0 = any kind).
func (w *vW) vLive(name string, kind nfstypes.Ftype3) (nfstypes.Nfs_fh3, uint64) {
	x := w.vInum(name)
	verifrt.Assume(x >= 1)
	ip := w.vInodeAt(x)
	verifrt.Assume(ip.Kind != inode.NF3FREE)
	if kind != 0 {
		verifrt.Assume(ip.Kind == kind)
	}
	return fh.Fh{Ino: x, Gen: ip.Gen}.MakeFh3(), x
}

// vAnyFh is a handle of 0..64 arbitrary bytes.
func vAnyFh(name string) nfstypes.Nfs_fh3 {
	n := verifrt.U64(name + "_len")
	verifrt.Assume(n <= 64)
	return nfstypes.Nfs_fh3{Data: verifrt.Bytes(name, n)}
}

// vFh16 is an arbitrary well-sized handle whose inode number has a representative in-block slot.
func (w *vW) vFh16(name string) nfstypes.Nfs_fh3 {
	x := w.vInum(name)
	g := verifrt.U64(name + "_gen")
	return fh.Fh{Ino: x, Gen: g}.MakeFh3()
}

// vName is a file name of a representative length (all boundary lengths of the name-length checks)
// whose first w.cmp bytes are arbitrary.
func (w *vW) vName(name string) nfstypes.Filename3 {
	var n uint64
	if verifrt.Param("longnames", 0) == 1 {
		n = verifrt.Choose(name+"_len", 1, 2, 0, 3, 110, 111, 112, 113, 255, 300)
	} else {
		n = verifrt.Choose(name+"_len", 1, 2, 3)
	}
	return nfstypes.Filename3(verifrt.Name(name, n, w.cmp))
}

// assumeDir instantiates I6 for a just-decoded inode under the guard g = "it is a directory": its single
// data block is present and well-formed, every named child is a live inode, and (bound R_slot) the
// in-block inode slot of the child named in directory slot s is the representative (5*s+2) mod 32.
// Everything is stated as implications so that no path is forked here.
func (w *vW) assumeDir(ip *inode.Inode, g bool) {
	b0 := ip.VerifBlks()[0]
	verifrt.Assume(!g || b0 != 0)
	blk := w.d.Peek(b0)
	dir.VerifAssumeDirBlock(g, blk, w.dirSlots, ip.Inum, uint64(w.sup.NInode()), w.cmp+1)
	for s := uint64(1); s < w.dirSlots; s++ {
		c, _ := dir.VerifSlot(blk, s)
		verifrt.Assume(!g || c == 0 || c%32 == (5*s+2)%32 || (s == 1 && c == ip.Inum))
		// child liveness (I6): Kind != 0, read straight from the inode table
		a := w.sup.Inum2Addr(c % 32768)
		ib := w.d.Peek(a.Blkno)
		o := a.Off / 8
		k0, k1, k2, k3 := ib[o], ib[o+1], ib[o+2], ib[o+3]
		verifrt.Assume(!g || c == 0 || c == ip.Inum || k0 != 0 || k1 != 0 || k2 != 0 || k3 != 0)
	}
}

// assumeMarked: I2, a block that is pointed to is marked in use in the block bitmap (on disk, and
// therefore in the allocator's copy, which MakeNfs reads from the same blocks).
func (w *vW) assumeMarked(p uint64) {
	if verifrt.Param("marked", 1) == 0 {
		return
	}
	bm := w.d.Init(uint64(w.sup.BitmapBlockStart()) + (p%w.d.Sz)/32768)
	b := bm[(p%32768)/8]
	verifrt.Assume(p == 0 || b&(1<<(p%8)) != 0)
}
