package nfs

import (
	"github.com/mit-pdos/go-journal/alloc"
	"github.com/mit-pdos/go-journal/buf"
	"github.com/mit-pdos/go-journal/common"
	"github.com/mit-pdos/go-nfsd/dir"
	"github.com/mit-pdos/go-nfsd/fh"
	"github.com/mit-pdos/go-nfsd/inode"
	"github.com/mit-pdos/go-nfsd/nfstypes"
	"github.com/mit-pdos/go-nfsd/super"
	"github.com/mit-pdos/go-nfsd/verifrt"
)

var vZeroBlock = make([]byte, 4096)

// vW is "an arbitrary valid file system": a symbolic logical disk with an empty (fully installed) log
// and a live root directory, on which the real MakeNfs has been run. Validity is the representation
// invariant Inv of DESIGN.md §4, assumed instance by instance through call hooks.
//
// Addresses. With parameter symaddr=0 (default) block and inode *numbers* take representative concrete
// values (bound R_addr): slot i of inode x points to 0 or block 2048+32*(x mod 128)+i, the k-th
// allocation returns 0 or block 7000+k / inode 39+32k, directory slot s names 0 or inode 96+((5s+2) mod
// 32); contents (every inode field, which pointers are zero, all data bytes, all directory entries) stay
// symbolic. With symaddr=1 the numbers are symbolic too, constrained by I2/I3 only.
type vW struct {
	nfs *Nfs
	nfs2 *Nfs // a second server instance on the same disk (restart harnesses)
	d   *verifrt.Disk
	sup *super.FsSuper
	// bounds
	dirSlots uint64
	lnkMax   uint64
	cmp      uint64
	symaddr  bool
	// pointers / allocations seen on this path (I3 instantiation)
	ptrVal   []uint64
	allocd   []uint64
	nballoc  uint64
	nialloc  uint64
	dirsDone []*inode.Inode
	quiet    bool
	coarseBitmap bool // a journal access wider than one bit inside the bitmap region (bitmapHooks)
}

func vWorld(name string) *vW {
	sz := verifrt.Param("disksz", 10000)
	return vWorldOn(verifrt.NewDisk(name, sz))
}

func vWorldOn(d *verifrt.Disk) *vW {
	// empty log: end == start (any position below 2^12)
	h0 := d.Init(0)
	h1 := d.Init(1)
	for i := 0; i < 8; i++ {
		verifrt.Assume(h0[i] == h1[i])
	}
	verifrt.Assume(h0[2] == 0 && h0[3] == 0 && h0[4] == 0 && h0[5] == 0 && h0[6] == 0 && h0[7] == 0 && h0[1] < 16)
	w := &vW{d: d, dirSlots: verifrt.Param("dirslots", 3), lnkMax: verifrt.Param("lnkmax", 8), cmp: verifrt.Param("namecmp", 2),
		symaddr: verifrt.Param("symaddr", 0) == 1}
	w.sup = super.MkFsSuper(d)
	w.hooks()
	w.nfs = MakeNfs(d)
	if !w.symaddr {
		verifrt.AllocRep(w.nfs.fsstate.Balloc, 7000, 1, w.sup.NBlockBitmap*32768)
		verifrt.AllocRep(w.nfs.fsstate.Ialloc, 39, 32, 32768)
	}
	return w
}

// vOffset returns a file offset. Default: block index from the boundary representatives of the block
// map (direct / indirect / double-indirect edges, last addressable block, first block beyond) combined
// with a boundary in-block offset; or (class "far") any offset beyond the addressable range, up to 2^64-1.
func vOffset(name string) uint64 {
	var bi uint64
	switch verifrt.Param("offsets", 1) {
	case 0:
		bi = verifrt.Choose(name+"_blk", 0, 8, 262664, 1<<62)
	case 1:
		bi = verifrt.Choose(name+"_blk", 0, 8, 520, 262663, 262664, 1<<62)
	default:
		bi = verifrt.Choose(name+"_blk", 0, 1, 7, 8, 9, 519, 520, 521, 1031, 1032, 262663, 262664, 1<<62)
	}
	if bi == 1<<62 {
		off := verifrt.U64(name + "_far")
		verifrt.Assume(off/4096 > 262664)
		return off
	}
	var bo uint64
	if verifrt.Param("offsets", 1) <= 1 {
		bo = verifrt.Choose(name+"_byte", 0, 4095)
	} else {
		bo = verifrt.Choose(name+"_byte", 0, 1, 4094, 4095)
	}
	return bi*4096 + bo
}

func vBlockOf(x, i uint64) uint64 { return 2048 + 32*(x%128) + i }
func vChildOf(s uint64) uint64    { return 96 + (5*s+2)%32 }

// vChildIn: the representative child of directory d at slot s. The root's children differ from every
// other directory's, so that two directories met by one request never name the same object (an object
// has one name).
func vChildIn(d, s uint64) uint64 {
	if d == 1 {
		return 96 + (5*s+18)%32
	}
	if d >= 96 && d < 128 {
		// a representative child that is itself a directory has children of its own
		return 60 + (5*s+2)%32
	}
	return vChildOf(s)
}

// hooks installs the Inv instantiation points.
func (w *vW) hooks() {
	ds, mx := uint64(w.sup.DataStart()), uint64(w.sup.MaxBnum())
	verifrt.OnReturn("github.com/mit-pdos/go-nfsd/inode.Decode", func(ip *inode.Inode) {
		if w.quiet {
			return
		}
		if verifrt.Appended() {
			// A later transaction of the same request (after a helper transaction that finished a pending
			// shrink), or a later request of a multi-request harness. By induction over transactions (the
			// step is C04's obligation) the state it starts from satisfies Inv again; the BOUNDS, which
			// are assumptions about the chosen pre-state only, are not assumed of it.
			inode.VerifAssumeInvLocal(ip, ds, mx, 1<<40, 1<<40)
			for i := uint64(0); i < 10; i++ {
				p := ip.VerifBlks()[i]
				if !w.symaddr {
					c := vBlockOf(ip.Inum, i)
					verifrt.Assume(p == 0 || p == c || (p >= 7000 && p < 7064))
				}
			}
			return
		}
		inode.VerifAssumeInvLocal(ip, ds, mx, w.dirSlots, w.lnkMax)
		if ip.Inum == common.ROOTINUM {
			// the root is created once by mkfs (generation 1) and never freed
			verifrt.Assume(ip.Kind == nfstypes.NF3DIR && ip.Gen == 1)
		}
		if ip.Inum == 0 {
			verifrt.Assume(ip.Kind == inode.NF3FREE)
		}
		if sb := verifrt.Param("sizeblocks", 0); sb > 0 {
			// bound B_blocks on objects that may be freed inline: at most sizeblocks blocks, or large
			// enough (>= 600 blocks) that freeing is handed to the background shrinker
			verifrt.Assume(ip.ShrinkSize <= sb || ip.ShrinkSize >= 600)
			nb := (ip.Size + 4095) / 4096
			verifrt.Assume(nb <= sb || nb >= 600)
			if verifrt.Param("pendingshrink", 1) == 0 {
				// no shrink pending on the objects this request meets
				verifrt.Assume(ip.ShrinkSize <= nb)
			}
		}
		for i := uint64(0); i < 10; i++ {
			p := ip.VerifBlks()[i]
			if !w.symaddr {
				c := vBlockOf(ip.Inum, i)
				verifrt.Assume(p == 0 || p == c)
				continue
			}
			w.assumeMarked(p)
			// lemma (I2 + allocator contract): blocks handed out earlier in this request were free,
			// hence differ from every pointer of the pre-state
			for _, n := range w.allocd {
				verifrt.Assume(p == 0 || p != n)
			}
			// I3: two pointer locations hold different blocks
			for _, q := range w.ptrVal {
				verifrt.Assume(p == 0 || p != q)
			}
			w.ptrVal = append(w.ptrVal, p)
		}
	})
	// I6 is instantiated lazily, when an inode is first used as a directory
	for _, f := range []string{"LookupName", "AddName", "RemName", "IsDirEmpty", "Apply", "ApplyEnts", "ScanName", "InitDir"} {
		verifrt.OnCall("github.com/mit-pdos/go-nfsd/dir."+f, func(dip *inode.Inode) {
			if dip != nil && !verifrt.Appended() && verifrt.Param("nodirhook", 0) == 0 {
				for _, seen := range w.dirsDone {
					if seen == dip {
						return
					}
				}
				w.dirsDone = append(w.dirsDone, dip)
				w.assumeDir(dip, verifrt.Forced(dip.Kind == nfstypes.NF3DIR && dip.Size != 0))
			}
		})
	}
	// allocator results (contract + Inv): a free block number lies in the data region (mkfs marks every
	// other block, C15), is all-zero (I7) and unreferenced (I2/I3: referenced blocks are marked); a free
	// inode number lies in [2, NInode) and names a free inode (I5).
	verifrt.OnReturn("(*github.com/mit-pdos/go-journal/alloc.Alloc).AllocNum", func(a *alloc.Alloc, n uint64) {
		if w.nfs == nil {
			return
		}
		if a == w.nfs.fsstate.Balloc || (w.nfs2 != nil && a == w.nfs2.fsstate.Balloc) {
			if w.symaddr {
				verifrt.Assume(n == 0 || (n >= ds && n < mx))
				for _, p := range w.ptrVal {
					verifrt.Assume(n == 0 || n != p)
				}
				for _, m := range w.allocd {
					verifrt.Assume(n == 0 || n != m)
				}
				w.allocd = append(w.allocd, n)
			} else {
				w.nballoc++
			}
			if verifrt.Param("zeroalloc", 1) == 1 {
				if w.symaddr {
					verifrt.Assume(n == 0 || verifrt.BytesEq(w.d.Peek(n), vZeroBlock))
				} else if n != 0 {
					w.d.AssumeZero(n)
				}
			}
		} else {
			if w.symaddr {
				verifrt.Assume(n == 0 || (n >= 2 && n < uint64(w.sup.NInode()) && n%32 == 7))
			} else {
				w.nialloc++
			}
			if n != 0 {
				ip := w.vInodeAt(n)
				verifrt.Assume(ip.Kind == inode.NF3FREE)
				// bound B_blocks: a half-freed inode handed out again has at most bblocks blocks left to free
				verifrt.Assume(ip.ShrinkSize <= verifrt.Param("bblocks", 2))
				if w.nialloc > 1 {
					// bound: at most one half-freed inode is met per request (otherwise the allocate /
					// finish-shrinking / retry loop of getAlloc has no bound in an arbitrary state)
					verifrt.Assume(ip.ShrinkSize == 0)
				}
			}
		}
	})
	// I2 for the entries of indirect blocks (after the first commit: by induction over transactions, see
	// the Decode hook; fresh blocks may then appear as entries)
	verifrt.OnReturn("(*github.com/mit-pdos/go-journal/buf.Buf).BnumGet", func(b *buf.Buf, off uint64, p uint64) {
		verifrt.Assume(p == 0 || (p >= ds && p < mx))
		if w.symaddr {
			if verifrt.Appended() {
				return
			}
			w.assumeMarked(p)
			for _, q := range w.ptrVal {
				verifrt.Assume(p == 0 || p != q)
			}
		} else if verifrt.Appended() {
			verifrt.Assume(p == 0 || (p >= 7000 && p < mx))
			if verifrt.Param("preentries", 0) == 1 {
				// harnesses that issue several requests: an entry that still has its pre-state value is
				// an entry of the pre-state, whose representative range excludes the fresh blocks
				pre := vLe64(w.d.Init(b.Addr.Blkno), off)
				verifrt.Assume(p != pre || p == 0 || p >= 7500)
			}
		} else {
			// representative range for indirect entries: disjoint from inode slots (2048..6143) and from
			// fresh allocations (7000..); entries are symbolic within it
			verifrt.Assume(p == 0 || (p >= 7500 && p < mx))
		}
	})
}

// vInodeAt decodes inode x from the current logical disk (no events, no cache).
func (w *vW) vInodeAt(x uint64) *inode.Inode {
	a := w.sup.Inum2Addr(x)
	blk := w.d.Peek(a.Blkno)
	return inode.Decode(buf.MkBufLoad(a, common.INODESZ*8, blk), x)
}

// vInum returns an inode number. symaddr=0: a representative concrete number (root, low, high, in
// different in-block slots); symaddr=1: 32*q + r with q symbolic and r a representative in-block slot.
func (w *vW) vInum(name string) uint64 {
	if !w.symaddr {
		switch verifrt.Param("inums", 2) {
		case 1:
			return verifrt.Choose(name+"_x", 193)
		case 2:
			return verifrt.Choose(name+"_x", 193, 1)
		default:
			return verifrt.Choose(name+"_x", 193, 1, 32767, 64, 2)
		}
	}
	q := uint64(verifrt.U32(name + "_q"))
	verifrt.Assume(q < 1024)
	var r uint64
	switch verifrt.Param("slots", 1) {
	case 32:
		r = verifrt.Choose(name+"_r", 0, 1, 2, 3, 4, 5, 6, 7, 8, 9, 10, 11, 12, 13, 14, 15, 16, 17, 18, 19, 20, 21, 22, 23, 24, 25, 26, 27, 28, 29, 30, 31)
	case 3:
		r = verifrt.Choose(name+"_r", 1, 0, 31)
	default:
		r = 1
	}
	return q*32 + r
}

// vLive returns the handle of an arbitrary live inode of the given kind (0 = any kind).
func (w *vW) vLive(name string, kind nfstypes.Ftype3) (nfstypes.Nfs_fh3, uint64) {
	x := w.vInum(name)
	verifrt.Assume(x >= 1)
	ip := w.vInodeAt(x)
	verifrt.Assume(ip.Kind != inode.NF3FREE)
	if kind != 0 {
		verifrt.Assume(ip.Kind == kind)
	}
	return fh.Fh{Ino: x, Gen: ip.Gen}.MakeFh3(), x
}

// vName is a file name of a representative length (all boundary lengths of the name-length checks)
// whose first w.cmp bytes are arbitrary and whose other bytes are 'x'.
func (w *vW) vName(name string) nfstypes.Filename3 {
	var n uint64
	if verifrt.Param("longnames", 0) == 1 {
		n = verifrt.Choose(name+"_len", 1, 2, 0, 3, 110, 111, 112, 113, 255, 300)
	} else if verifrt.Param("namelens", 3) == 2 {
		n = verifrt.Choose(name+"_len", 1, 2)
	} else {
		n = verifrt.Choose(name+"_len", 1, 2, 3)
	}
	return nfstypes.Filename3(verifrt.Name(name, n, w.cmp))
}

// assumeDir instantiates I6 for an inode used as a directory, under the guard g = "it is one": its
// single data block is present and well-formed and every named child is a live inode. Everything is
// stated as implications so that no path is forked here.
func (w *vW) assumeDir(ip *inode.Inode, g bool) {
	b0 := ip.VerifBlks()[0]
	verifrt.Assume(!g || b0 != 0)
	blk := w.d.Peek(b0)
	dir.VerifAssumeDirBlock(g, blk, w.dirSlots, ip.Inum, uint64(w.sup.NInode()), w.cmp+1)
	for s := uint64(1); s < w.dirSlots; s++ {
		c, _ := dir.VerifSlot(blk, s)
		if w.symaddr {
			verifrt.Assume(!g || c == 0 || c%32 == (5*s+2)%32 || (s == 1 && c == ip.Inum))
		} else if s == 1 {
			cs := vChildIn(ip.Inum, s)
			verifrt.Assume(!g || c == ip.Inum || c == 1 || c == cs)
		} else {
			cs := vChildIn(ip.Inum, s)
			verifrt.Assume(!g || c == 0 || c == cs)
		}
		// child liveness (I6): Kind != 0, read straight from the inode table
		a := w.sup.Inum2Addr(c % 32768)
		ib := w.d.Peek(a.Blkno)
		o := a.Off / 8
		k0, k1, k2, k3 := ib[o], ib[o+1], ib[o+2], ib[o+3]
		verifrt.Assume(!g || c == 0 || c == ip.Inum || k0 != 0 || k1 != 0 || k2 != 0 || k3 != 0)
	}
}

// assumeMarked: I2, a block that is pointed to is marked in use in the block bitmap (on disk, and
// therefore in the allocator's copy, which MakeNfs reads from the same blocks).
func (w *vW) assumeMarked(p uint64) {
	if verifrt.Param("marked", 1) == 0 {
		return
	}
	bm := w.d.Init(uint64(w.sup.BitmapBlockStart()) + (p%w.d.Sz)/32768)
	b := bm[(p%32768)/8]
	verifrt.Assume(p == 0 || b&(1<<(p%8)) != 0)
}
