package nfs

import (
	"github.com/mit-pdos/go-journal/common"
	"github.com/mit-pdos/go-nfsd/inode"
	"github.com/mit-pdos/go-nfsd/nfstypes"
	"github.com/mit-pdos/go-nfsd/verifrt"
)

// C15: the real mkfs path (MakeNfs on an all-zero disk: makeFs, markAlloc, MkFsState, makeRootDir) for
// a list of disk sizes dense around the bitmap-block boundaries; the bit position is a solver witness.
func VerifMkfs() {
	q := verifrt.Choose("q", 0, 1, 2, 3, 4, 5, 6, 7)
	if q >= verifrt.Param("quotients", 4) {
		verifrt.Assume(false)
	}
	var r uint64
	if verifrt.Param("dense", 0) == 1 {
		r = verifrt.Choose("r", 0, 1, 2, 7, 8, 9, 15, 16, 63, 64, 1539, 1540, 1541, 1542, 1545, 1550, 1600, 2048, 4095, 4096, 4097, 8191, 10000, 16384, 20000, 32760, 32761, 32766, 32767)
	} else {
		r = verifrt.Choose("r", 0, 1, 8, 1550, 10000, 32767)
	}
	sz := q*32768 + r
	nbb := sz/32768 + 1
	ds := common.LOGSIZE + nbb + 1 + 1024
	if sz < ds+2 {
		// too small to hold a file system with at least two data blocks: not in the claim
		verifrt.Assume(false)
	}
	d := verifrt.ZeroDisk("d", sz)
	nfs := MakeNfs(d)
	s := nfs.fsstate.Super
	verifrt.Assert(uint64(s.DataStart()) == ds && s.NBlockBitmap == nbb, "layout")
	// the block the root directory got (allocator contract: any free bit) is a data block
	rootb := uint64(0)
	for _, ev := range verifrt.Events() {
		if ev.Kind == verifrt.EvAlloc && ev.A != 0 && ev.Obj == interface{}(nfs.fsstate.Balloc) {
			rootb = ev.A
		}
	}
	if !verifrt.Symbolic() {
		rootb = readRootInode(s, nfs.fsstate.Txn).VerifBlks()[0] // native replay has no event monitor
	}
	verifrt.Assert(rootb >= ds && rootb < sz, "root-dir-block-in-data-region")
	// block bitmap on the logical disk, witness bit i in bitmap block k
	k := verifrt.Split(verifrt.U64("bmblock"), nbb)
	verifrt.Assume(k < nbb)
	bi := verifrt.U64("bit")
	verifrt.Assume(bi < 32768)
	i := k*32768 + bi
	bm := d.Peek(uint64(s.BitmapBlockStart()) + k)
	set := bm[bi/8]&(1<<(bi%8)) != 0
	verifrt.Assert(set == (i < ds || i >= sz || i == rootb), "block-bitmap-marks-exactly-non-data-blocks")
	// inode bitmap
	ib := d.Peek(uint64(s.BitmapInodeStart()))
	ii := verifrt.U64("ibit")
	verifrt.Assume(ii < 32768)
	iset := ib[ii/8]&(1<<(ii%8)) != 0
	verifrt.Assert(iset == (ii < 2), "inode-bitmap-marks-exactly-0-and-1")
	// root inode
	root := readRootInode(s, nfs.fsstate.Txn)
	verifrt.Assert(root.Kind == nfstypes.NF3DIR && root.Nlink >= 1 && root.Size == 256 && root.Gen == 1, "root-inode")
	verifrt.Assert(root.VerifBlks()[0] == rootb, "root-points-to-its-block")
	_ = inode.NF3FREE
	// a second start on the same disk does not format again and sees the same root
	verifrt.Cover("end")
}
