package nfs

import (
	"sort"

	"github.com/mit-pdos/go-journal/common"
	"github.com/mit-pdos/go-nfsd/verifrt"
)

// VerifSortKernel reproduces the sorting fragment of lockInodes on 3 symbolic numbers.
func VerifSortKernel() {
	inums := verifrt.Words("inums", 3)
	sorted := make([]common.Inum, len(inums))
	copy(sorted, inums)
	sort.Slice(sorted, func(i, j int) bool { return inums[i] < inums[j] })
	verifrt.Assert(sorted[0] <= sorted[1], "asc01")
	verifrt.Assert(sorted[1] <= sorted[2], "asc12")
	verifrt.Cover("end")
}
