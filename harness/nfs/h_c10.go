package nfs

import (
	"github.com/mit-pdos/go-nfsd/fh"
	"github.com/mit-pdos/go-nfsd/nfstypes"
	"github.com/mit-pdos/go-nfsd/verifrt"
)

// ---- C10: the running server and a restart from its disk are indistinguishable.
//
// VerifC10Restart: one request (any mutating or hole-filling procedure, successful or failed) is executed
// symbolically on a running server from an arbitrary valid state; then a SECOND server instance is
// started on the same disk (MakeNfs: recovery, allocators and caches rebuilt from disk). The same
// observing requests are sent to both instances: GETATTR of the request's handle, LOOKUP of a witness
// name, READ of a witness byte. Every reply must be the same. A cached inode, name cache or size that
// differs from the disk after the request - on any path, including the failing ones - shows as a
// difference between the two instances.
func VerifC10Restart() {
	w := vWorld("d")
	w.stepHooks()
	var h nfstypes.Nfs_fh3
	var dh nfstypes.Nfs_fh3
	var name nfstypes.Filename3
	var x uint64
	isdir := false
	group := verifrt.Param("procs", 1)
	verifrt.Mark(vMarkOpBegin)
	if group == 1 {
		h, x = w.vLive("f", nfstypes.NF3REG)
		ip := w.boundInode(x, true)
		switch verifrt.Choose("proc", pWRITE, pSETATTR, pREAD) {
		case pWRITE:
			n := verifrt.U64("datalen")
			verifrt.Assume(n <= verifrt.Param("bbytes", 2))
			off := vOffset("off")
			verifrt.Assume(off%4096+n <= 4096)
			w.nfs.NFSPROC3_WRITE(nfstypes.WRITE3args{File: h, Offset: nfstypes.Offset3(off), Count: nfstypes.Count3(n), Stable: nfstypes.FILE_SYNC, Data: verifrt.Bytes("data", n)})
		case pSETATTR:
			a := vSattr("a")
			a.Size.Size = nfstypes.Size3(vOffset("size"))
			bb := verifrt.Param("bblocks", 1)
			oldb, newb := (ip.Size+4095)/4096, (uint64(a.Size.Size)+4095)/4096
			verifrt.Assume(!a.Size.Set_it || newb >= oldb || oldb-newb <= bb)
			w.nfs.NFSPROC3_SETATTR(nfstypes.SETATTR3args{Object: h, New_attributes: a})
		case pREAD:
			off, cnt := vOffset("off"), verifrt.U32("cnt")
			bb := verifrt.Param("bbytes", 2)
			verifrt.Assume(off >= ip.Size || uint64(cnt) <= bb || ip.Size-off <= bb)
			w.nfs.NFSPROC3_READ(nfstypes.READ3args{File: h, Offset: nfstypes.Offset3(off), Count: nfstypes.Count3(cnt)})
		}
	} else {
		isdir = true
		dh, x = w.vLive("dir", nfstypes.NF3DIR)
		w.boundInode(x, true)
		c04 := &v04{}
		w.pre04(c04, 39, 71)
		c04.dirs = append(c04.dirs, x)
		w.pre04(c04, x, vChildIn(x, 2))
		w.pre04links(c04)
		h = dh
		name = w.vName("n")
		switch verifrt.Choose("proc", pCREATE, pMKDIR, pSYMLINK, pREMOVE, pRMDIR, pRENAME, pLOOKUP) {
		case pCREATE:
			w.nfs.NFSPROC3_CREATE(nfstypes.CREATE3args{Where: nfstypes.Diropargs3{Dir: dh, Name: name}})
		case pMKDIR:
			w.nfs.NFSPROC3_MKDIR(nfstypes.MKDIR3args{Where: nfstypes.Diropargs3{Dir: dh, Name: name}})
		case pSYMLINK:
			w.nfs.NFSPROC3_SYMLINK(nfstypes.SYMLINK3args{Where: nfstypes.Diropargs3{Dir: dh, Name: name}, Symlink: nfstypes.Symlinkdata3{Symlink_data: "t"}})
		case pREMOVE:
			w.nfs.NFSPROC3_REMOVE(nfstypes.REMOVE3args{Object: nfstypes.Diropargs3{Dir: dh, Name: name}})
		case pRMDIR:
			w.nfs.NFSPROC3_RMDIR(nfstypes.RMDIR3args{Object: nfstypes.Diropargs3{Dir: dh, Name: name}})
		case pRENAME:
			w.nfs.NFSPROC3_RENAME(nfstypes.RENAME3args{From: nfstypes.Diropargs3{Dir: dh, Name: name}, To: nfstypes.Diropargs3{Dir: dh, Name: w.vName("tn")}})
		case pLOOKUP:
			w.nfs.NFSPROC3_LOOKUP(nfstypes.LOOKUP3args{What: nfstypes.Diropargs3{Dir: dh, Name: name}})
		}
	}
	// quiescent point: no request in flight, background work (if any was started) not yet run, everything
	// stable flushed. Restart on the same disk.
	nfs2 := MakeNfs(w.d)
	w.nfs2 = nfs2
	verifrt.AllocRep(nfs2.fsstate.Balloc, 7100, 1, w.sup.NBlockBitmap*32768)
	verifrt.AllocRep(nfs2.fsstate.Ialloc, 39+32*8, 32, 32768)
	// ---- the same observations on both instances
	g1 := w.nfs.NFSPROC3_GETATTR(nfstypes.GETATTR3args{Object: h})
	g2 := nfs2.NFSPROC3_GETATTR(nfstypes.GETATTR3args{Object: h})
	verifrt.Assert(g1.Status == g2.Status, "getattr-status-same-after-restart")
	if g1.Status == nfstypes.NFS3_OK {
		a, b := g1.Resok.Obj_attributes, g2.Resok.Obj_attributes
		verifrt.Assert(a.Ftype == b.Ftype && a.Size == b.Size && a.Fileid == b.Fileid && a.Mtime == b.Mtime && a.Atime == b.Atime, "attributes-same-after-restart")
	}
	if isdir {
		t := name
		if verifrt.Choose("track", 0, 1) == 1 {
			t = w.vName("o")
		}
		l1 := w.nfs.NFSPROC3_LOOKUP(nfstypes.LOOKUP3args{What: nfstypes.Diropargs3{Dir: dh, Name: t}})
		l2 := nfs2.NFSPROC3_LOOKUP(nfstypes.LOOKUP3args{What: nfstypes.Diropargs3{Dir: dh, Name: t}})
		verifrt.Assert(l1.Status == l2.Status, "lookup-status-same-after-restart")
		if l1.Status == nfstypes.NFS3_OK && l2.Status == nfstypes.NFS3_OK {
			f1, f2 := fh.MakeFh(l1.Resok.Object), fh.MakeFh(l2.Resok.Object)
			verifrt.Assert(f1.Ino == f2.Ino && f1.Gen == f2.Gen, "lookup-handle-same-after-restart")
			verifrt.Cover("found")
		}
	} else {
		wo := verifrt.Choose("wblk", 0, 8)*4096 + verifrt.Choose("wbyte", 0, 4095)
		r2 := nfs2.NFSPROC3_READ(nfstypes.READ3args{File: h, Offset: nfstypes.Offset3(wo), Count: 1})
		r1 := w.nfs.NFSPROC3_READ(nfstypes.READ3args{File: h, Offset: nfstypes.Offset3(wo), Count: 1})
		verifrt.Assert(r1.Status == r2.Status, "read-status-same-after-restart")
		if r1.Status == nfstypes.NFS3_OK && len(r1.Resok.Data) == 1 && len(r2.Resok.Data) == 1 {
			verifrt.Assert(r1.Resok.Data[0] == r2.Resok.Data[0], "read-byte-same-after-restart")
			verifrt.Cover("byte")
		}
	}
	verifrt.Cover("end")
}
