// Package verifrt holds the intrinsics used by the verification harnesses.
//
// Under the symbolic executor (gosym) every function here is intercepted by name and its body is
// never run. The bodies below are the *native replay* semantics: values come from a replay file
// (a solver model written by gosym), Assume/Assert become run-time checks, and Disk is an ordinary
// in-memory disk initialised from the model.
package verifrt

import (
	"runtime"
	"encoding/hex"
	"encoding/json"
	"fmt"
	"os"
	"strconv"
	"strings"
	"sync"
	"time"
)

type replayFile struct {
	Harness string                       `json:"harness"`
	Kind    string                       `json:"kind"`
	Label   string                       `json:"label"`
	Model   map[string]string            `json:"model"`
	Disks   map[string]map[string]string `json:"disks"`
	Choices []uint64                     `json:"choices"`
	Params  map[string]uint64            `json:"params"`
	Events  []string                     `json:"events"`
}

var (
	rp       *replayFile
	counts   = map[string]int{}
	choiceIx int
	mu       sync.Mutex
	Failed   []string
	Covered  []string
)

// Event mirrors the engine's monitor record (empty natively).
type Event struct {
	Kind, A, B, C uint64
	Obj           interface{}
}

const (
	EvAcquire  = 1
	EvRelease  = 2
	EvAppend   = 3
	EvFlush    = 4
	EvRawWrite = 5
	EvBegin    = 6
	EvGo       = 7
	EvAlloc    = 8
	EvFree     = 9
	EvRawRead  = 10
	EvRefused  = 11
	EvMutex    = 12
	EvAccess   = 13
	EvMark     = 14
	EvBarrier  = 15
)

func load() {
	if rp != nil {
		return
	}
	rp = &replayFile{Model: map[string]string{}}
	if p := os.Getenv("VERIF_REPLAY"); p != "" {
		b, err := os.ReadFile(p)
		if err != nil {
			panic(err)
		}
		if err := json.Unmarshal(b, rp); err != nil {
			panic(err)
		}
	}
}

func key(name string) string {
	k := counts[name]
	counts[name] = k + 1
	return fmt.Sprintf("%s#%d", name, k)
}

func scalar(name string) uint64 {
	mu.Lock()
	defer mu.Unlock()
	load()
	s, ok := rp.Model[key(name)]
	if !ok {
		return 0
	}
	v, _ := strconv.ParseUint(s, 10, 64)
	return v
}

func U64(name string) uint64 { return scalar(name) }
func U32(name string) uint32 { return uint32(scalar(name)) }
func U8(name string) byte    { return byte(scalar(name)) }
func Bool(name string) bool  { return scalar(name) != 0 }

func Bytes(name string, n uint64) []byte {
	mu.Lock()
	defer mu.Unlock()
	load()
	out := make([]byte, n)
	s := rp.Model[key(name)]
	if strings.HasPrefix(s, "hex:") {
		b, _ := hex.DecodeString(s[4:])
		copy(out, b)
	}
	return out
}

func Words(name string, n uint64) []uint64 {
	mu.Lock()
	defer mu.Unlock()
	load()
	out := make([]uint64, n)
	s := rp.Model[key(name)]
	if strings.HasPrefix(s, "words:") && len(s) > 6 {
		for i, f := range strings.Split(s[6:], ",") {
			if uint64(i) < n {
				out[i], _ = strconv.ParseUint(f, 10, 64)
			}
		}
	}
	return out
}

func String(name string, n uint64) string { return string(Bytes(name, n)) }

// Name is a string of length n whose first cmp bytes are arbitrary and whose remaining bytes are the
// filler 'x' (so that comparing cmp bytes and the length decides equality of two such names).
func Name(name string, n uint64, cmp uint64) string {
	b := Bytes(name, cmp)
	out := make([]byte, n)
	for i := range out {
		if uint64(i) < cmp {
			out[i] = b[i]
		} else {
			out[i] = 'x'
		}
	}
	return string(out)
}

type AssumeFailed struct{ Site string }

type stopReplay struct{}

func Assume(c bool) {
	if !c {
		_, f, l, _ := runtime.Caller(1)
		panic(AssumeFailed{Site: fmt.Sprintf("%s:%d", f, l)})
	}
}

func Assert(c bool, label string) {
	if strings.HasPrefix(label, "mon:") {
		// obligations over the engine's event monitor (lock / journal / allocator events) have no native
		// observable: Events() is empty here. When the replayed counterexample is a violation of exactly
		// this obligation, the recorded trace ends here: the native run has followed the path up to the
		// violation, and running on would leave the recorded choices.
		mu.Lock()
		stop := rp != nil && rp.Kind == "assert" && rp.Label == label
		mu.Unlock()
		if stop {
			panic(stopReplay{})
		}
		return
	}
	if !c {
		mu.Lock()
		Failed = append(Failed, label)
		mu.Unlock()
	}
}

// AssertK is Assert with a known-finding excuse: when the finding `known` is listed as open, models
// satisfying `excuse` are reported as KNOWN-FINDING instead of VIOLATION.
func AssertK(c bool, label string, known string, excuse bool) { Assert(c, label) }

func Cover(label string) {
	mu.Lock()
	Covered = append(Covered, label)
	mu.Unlock()
}

// Choose forks over the listed representatives (symbolically); natively it replays the recorded choice.
func Choose(name string, vals ...uint64) uint64 {
	mu.Lock()
	defer mu.Unlock()
	load()
	if choiceIx < len(rp.Choices) {
		v := rp.Choices[choiceIx]
		choiceIx++
		return v
	}
	return vals[0]
}

// Param returns a bound chosen by the driver (tier dependent).
func Param(name string, def uint64) uint64 {
	mu.Lock()
	defer mu.Unlock()
	load()
	if v, ok := rp.Params[name]; ok {
		return v
	}
	return def
}

func Symbolic() bool            { return false }
func Concrete(x uint64) uint64  { return x }
func Split(x, n uint64) uint64  { return x }
func IteU64(c bool, a, b uint64) uint64 {
	if c {
		return a
	}
	return b
}
func Ite(c bool, a, b []byte) []byte {
	if c {
		return append([]byte{}, a...)
	}
	return append([]byte{}, b...)
}
func BytesEq(a, b []byte) bool              { return string(a) == string(b) }
func OnReturn(fn string, hook interface{}) {}
func OnCall(fn string, hook interface{})   {}
func RunSpawned()                          { time.Sleep(50 * time.Millisecond) }
func NumSpawned() uint64                   { return 0 }
func Mark(v uint64)                        {}

// AllocRep switches an allocator (a *alloc.Alloc) to representative mode: its k-th allocation returns 0
// or base+k*stride (symbolic execution only; natively the real allocator runs).
//
// Native replay: the real first-fit allocator runs. To make it follow the replayed path, every number
// other than the ones the model's path allocated from this allocator (base + k*stride, listed in the
// replay file's event trace) is marked used, so that the allocator hands out exactly those numbers, in
// the same order, and then reports exhaustion where the path saw an allocation fail.
func AllocRep(a interface{}, base, stride, max uint64) {
	al, ok := a.(interface{ MarkUsed(uint64) })
	if !ok {
		return
	}
	mu.Lock()
	load()
	allowed := map[uint64]bool{}
	for _, ev := range rp.Events {
		if strings.HasPrefix(ev, "alloc(") {
			n, err := strconv.ParseUint(strings.TrimSuffix(strings.TrimPrefix(ev, "alloc("), ")"), 10, 64)
			if err == nil && n >= base && (n-base)%stride == 0 {
				allowed[n] = true
			}
		}
	}
	mu.Unlock()
	for n := uint64(1); n < max; n++ {
		if !allowed[n] {
			al.MarkUsed(n)
		}
	}
}
func Watch(typ string)                     {}
func Events() []Event                      { return nil }
func AccessCount() uint64                  { return 0 }

// Appended reports whether the journal has been appended to since the world was created (the logical
// disk is no longer the assumed pre-state).
func Appended() bool { return false }

// Forced returns c; symbolically it returns the constant true when the path condition entails c.
func Forced(c bool) bool { return c }

// ---- disk

type Disk struct {
	Sz     uint64
	name   string
	mu     *sync.Mutex
	init   map[uint64][]byte
	blocks map[uint64][]byte
}

func decodeBlock(h string) []byte {
	b := make([]byte, 4096)
	x, _ := hex.DecodeString(h)
	copy(b, x)
	return b
}

func NewDisk(name string, sz uint64) *Disk {
	mu.Lock()
	defer mu.Unlock()
	load()
	k := key("disk:" + name)
	k = strings.TrimPrefix(k, "disk:")
	d := &Disk{Sz: sz, name: k, mu: new(sync.Mutex), init: map[uint64][]byte{}, blocks: map[uint64][]byte{}}
	for bs, h := range rp.Disks[k] {
		bn, _ := strconv.ParseUint(bs, 10, 64)
		d.init[bn] = decodeBlock(h)
		d.blocks[bn] = decodeBlock(h)
	}
	return d
}

func ZeroDisk(name string, sz uint64) *Disk {
	return &Disk{Sz: sz, name: name, mu: new(sync.Mutex), init: map[uint64][]byte{}, blocks: map[uint64][]byte{}}
}

func CloneDisk(d *Disk) *Disk {
	n := &Disk{Sz: d.Sz, name: d.name + "'", mu: new(sync.Mutex), init: d.init, blocks: map[uint64][]byte{}}
	d.mu.Lock()
	for k, v := range d.blocks {
		n.blocks[k] = append([]byte{}, v...)
	}
	d.mu.Unlock()
	return n
}

func SameDisk(a, b *Disk, blk uint64) bool { return string(a.Peek(blk)) == string(b.Peek(blk)) }

func (d *Disk) Read(a uint64) []byte {
	if a >= d.Sz {
		panic(fmt.Errorf("out-of-bounds read at %v", a))
	}
	return d.Peek(a)
}

func (d *Disk) Peek(a uint64) []byte {
	d.mu.Lock()
	defer d.mu.Unlock()
	out := make([]byte, 4096)
	if b, ok := d.blocks[a]; ok {
		copy(out, b)
	}
	return out
}

func (d *Disk) Init(a uint64) []byte {
	out := make([]byte, 4096)
	if b, ok := d.init[a]; ok {
		copy(out, b)
	}
	return out
}

func (d *Disk) ReadTo(a uint64, b []byte) { copy(b, d.Read(a)) }

// Unchanged reports whether block n still has its initial contents (symbolically: whether no write
// since the disk was created went to block n).
func (d *Disk) Unchanged(n uint64) bool { return string(d.Peek(n)) == string(d.Init(n)) }

// AssumeZero states the pre-state assumption that block n is all zero (natively: checked)
func (d *Disk) AssumeZero(n uint64) {
	for _, x := range d.Peek(n) {
		if x != 0 {
			panic(AssumeFailed{})
		}
	}
}

func (d *Disk) Write(a uint64, v []byte) {
	if uint64(len(v)) != 4096 {
		panic(fmt.Errorf("v is not block-sized (%d bytes)", len(v)))
	}
	if a >= d.Sz {
		panic(fmt.Errorf("out-of-bounds write at %v", a))
	}
	d.mu.Lock()
	d.blocks[a] = append([]byte{}, v...)
	d.mu.Unlock()
}

func (d *Disk) Size() uint64 { return d.Sz }
func (d *Disk) Barrier()     {}
func (d *Disk) Close()       {}

// ---- native replay entry point

type tester interface {
	Logf(format string, args ...interface{})
	Fatalf(format string, args ...interface{})
}

func resetState(path string) {
	mu.Lock()
	defer mu.Unlock()
	rp = &replayFile{Model: map[string]string{}}
	b, err := os.ReadFile(path)
	if err != nil {
		panic(err)
	}
	if err := json.Unmarshal(b, rp); err != nil {
		panic(err)
	}
	counts = map[string]int{}
	choiceIx = 0
	Failed = nil
	Covered = nil
}

func runOne(fns map[string]func()) string {
	name := rp.Harness
	if i := strings.LastIndex(name, "."); i >= 0 {
		name = name[i+1:]
	}
	f, ok := fns[name]
	if !ok {
		return "kind=error detail=no harness " + name + " in this package"
	}
	done := make(chan string, 1)
	go func() {
		defer func() {
			if r := recover(); r != nil {
				if _, ok := r.(stopReplay); ok {
					mu.Lock()
					fl := strings.Join(Failed, ",")
					nf := len(Failed)
					mu.Unlock()
					if nf > 0 {
						done <- "kind=assert detail=" + fl
					} else {
						done <- "kind=ok detail=reached the monitor obligation"
					}
					return
				}
				if af, ok := r.(AssumeFailed); ok {
					mu.Lock()
					nf := len(Failed)
					fl := strings.Join(Failed, ",")
					mu.Unlock()
					if nf > 0 {
						// an assertion failed before this point; the recorded trace ends at the first
						// violation, so choices and assumptions after it carry no meaning
						done <- "kind=assert detail=" + fl
						return
					}
					done <- "kind=assume detail=an assumption of the harness does not hold on the replayed values " + af.Site
					return
				}
				done <- fmt.Sprintf("kind=panic detail=%v", r)
				return
			}
			mu.Lock()
			defer mu.Unlock()
			if len(Failed) > 0 {
				done <- "kind=assert detail=" + strings.Join(Failed, ",")
			} else {
				done <- "kind=ok detail=" + strings.Join(Covered, ",")
			}
		}()
		f()
	}()
	select {
	case r := <-done:
		return r
	case <-time.After(20 * time.Second):
		return "kind=blocked detail=harness did not return within 20s"
	}
}

// RunReplay runs the harness named in the replay file natively and prints one line
// "REPLAY-RESULT kind=<ok|assert|panic|blocked|assume> detail=<...>". With VERIF_REPLAY_LIST (a file
// listing replay files, one per line) every listed replay is run and reported with its index.
func RunReplay(fns map[string]func()) {
	if lst := os.Getenv("VERIF_REPLAY_LIST"); lst != "" {
		b, err := os.ReadFile(lst)
		if err != nil {
			panic(err)
		}
		for i, p := range strings.Split(strings.TrimSpace(string(b)), "\n") {
			if p == "" {
				continue
			}
			resetState(p)
			fmt.Printf("REPLAY-RESULT id=%d %s\n", i, runOne(fns))
		}
		return
	}
	load()
	fmt.Println("REPLAY-RESULT " + runOne(fns))
}
