package kvs

import (
	"github.com/mit-pdos/go-journal/common"
	"github.com/mit-pdos/go-nfsd/verifrt"
)

// C18: MultiPut is one journal append holding last-writer-wins of all pairs, flushed before it returns;
// Get returns the logical disk contents; keys outside [LOGSIZE, sz) are refused by panic (documented
// behaviour of this API: fmt.Errorf panic) before anything is appended.

func kWorld() (*KVS, *verifrt.Disk, uint64) {
	sz := verifrt.Param("disksz", 1000)
	d := verifrt.NewDisk("d", sz)
	h0, h1 := d.Init(0), d.Init(1)
	for i := 0; i < 8; i++ {
		verifrt.Assume(h0[i] == h1[i])
	}
	verifrt.Assume(h0[2] == 0 && h0[3] == 0 && h0[4] == 0 && h0[5] == 0 && h0[6] == 0 && h0[7] == 0 && h0[1] < 16)
	return MkKVS(d, sz), d, sz
}

func kJournal() (uint64, uint64, bool) {
	var n, blocks, maxpos, flushed uint64
	for _, ev := range verifrt.Events() {
		if ev.Kind == verifrt.EvAppend && ev.A > 0 {
			n++
			blocks += ev.A
			maxpos = ev.B
		}
		if ev.Kind == verifrt.EvFlush && ev.A > flushed {
			flushed = ev.A
		}
	}
	return n, blocks, flushed >= maxpos
}

func VerifKvsMultiPut() {
	kvs, d, sz := kWorld()
	np := verifrt.Choose("npairs", 1, 2, 3)
	if verifrt.Param("pairs", 3) < np {
		verifrt.Assume(false)
	}
	pairs := make([]KVPair, np)
	for i := uint64(0); i < np; i++ {
		k := verifrt.U64("key")
		verifrt.Assume(k >= common.LOGSIZE && k < sz)
		pairs[i] = KVPair{Key: k, Val: verifrt.Bytes("val", 4096)}
	}
	wk := verifrt.U64("witness_key")
	verifrt.Assume(wk >= common.LOGSIZE && wk < sz)
	wq := verifrt.U64("witness_byte")
	verifrt.Assume(wq < 4096)
	before := d.Peek(wk)[wq]
	ok := kvs.MultiPut(pairs)
	n, _, durable := kJournal()
	verifrt.Assert(ok, "multiput-succeeds")
	verifrt.Assert(n == 1, "mon:single-append")
	verifrt.Assert(durable, "mon:durable-before-return")
	// last writer wins
	want := before
	for i := uint64(0); i < np; i++ {
		if pairs[i].Key == wk {
			want = pairs[i].Val[wq]
		}
	}
	verifrt.Assert(d.Peek(wk)[wq] == want, "last-writer-wins-all-pairs")
	// read your writes through the API
	p, gok := kvs.Get(wk)
	verifrt.Assert(gok && p.Key == wk && uint64(len(p.Val)) == 4096 && p.Val[wq] == want, "get-returns-latest")
	n2, _, _ := kJournal()
	verifrt.Assert(n2 == 1, "mon:get-appends-nothing")
	verifrt.Cover("end")
}

// keys at and beyond the boundaries: out-of-range puts are refused before any append
func VerifKvsBounds() {
	kvs, _, sz := kWorld()
	k := verifrt.Choose("key", common.LOGSIZE, common.LOGSIZE-1, 0)
	if k == 0 {
		k = sz - 1 + verifrt.Choose("above", 0, 1)
	}
	good := verifrt.U64("goodkey")
	verifrt.Assume(good >= common.LOGSIZE && good < sz)
	pairs := []KVPair{{Key: good, Val: verifrt.Bytes("v0", 4096)}, {Key: k, Val: verifrt.Bytes("v1", 4096)}}
	inRange := k >= common.LOGSIZE && k < sz
	verifrt.Mark(1)
	if inRange {
		verifrt.Assert(kvs.MultiPut(pairs), "in-range-accepted")
		verifrt.Cover("accepted")
	} else {
		defer func() {
			// reached only natively (the symbolic executor ends the path at the panic)
			recover()
		}()
		verifrt.Cover("refused")
		kvs.MultiPut(pairs)
		verifrt.Assert(false, "out-of-range-key-not-refused")
	}
}

// VerifKvsLarge: a multi-put at and just above the journal's capacity (511 blocks) with concrete
// distinct keys and a shared symbolic value: all-or-none, a single append, and success exactly when
// the pairs fit one transaction.
func VerifKvsLarge() {
	kvs, d, sz := kWorld()
	np := verifrt.Choose("npairs", 512, 511, 600)
	verifrt.Assume(common.LOGSIZE+np <= sz)
	v := verifrt.Bytes("val", 4096)
	pairs := make([]KVPair, np)
	for i := uint64(0); i < np; i++ {
		pairs[i] = KVPair{Key: common.LOGSIZE + i, Val: v}
	}
	wk := verifrt.U64("witness_key")
	verifrt.Assume(wk >= common.LOGSIZE && wk < sz)
	wq := verifrt.U64("witness_byte")
	verifrt.Assume(wq < 4096)
	before := d.Peek(wk)[wq]
	ok := kvs.MultiPut(pairs)
	n, _, durable := kJournal()
	after := d.Peek(wk)[wq]
	verifrt.Assert(n <= 1, "mon:at-most-one-append")
	if ok {
		verifrt.Assert(n == 1 && durable, "mon:success-is-one-durable-append")
		if wk < common.LOGSIZE+np {
			verifrt.Assert(after == v[wq], "all-pairs-installed")
		} else {
			verifrt.Assert(after == before, "other-keys-unchanged")
		}
		verifrt.Cover("ok")
	} else {
		verifrt.Assert(n == 0 && after == before, "failure-installs-nothing")
		verifrt.Cover("refused")
	}
	verifrt.Assert(ok == (np <= 511), "fits-iff-at-most-511-blocks")
}
