package dir

import (
	"github.com/mit-pdos/go-nfsd/verifrt"
)

// VerifSlot decodes slot s of a raw directory block: inode number, name length.
func VerifSlot(blk []byte, s uint64) (uint64, uint64) {
	o := s * DIRENTSZ
	var inum, l uint64
	for i := uint64(0); i < 8; i++ {
		inum |= uint64(blk[o+i]) << (8 * i)
		l |= uint64(blk[o+8+i]) << (8 * i)
	}
	return inum, l
}

// VerifSlotNameEq: slot s holds exactly the given name (compared up to cmp bytes; longer names agree on length).
func VerifSlotNameEq(blk []byte, s uint64, name string, cmp uint64) bool {
	o := s * DIRENTSZ
	_, l := VerifSlot(blk, s)
	eq := l == uint64(len(name))
	for i := uint64(0); i < cmp; i++ {
		eq = eq && (i >= l || i >= uint64(len(name)) || blk[o+16+i] == name[i])
	}
	return eq
}

// VerifAssumeDirBlock assumes I6 (shape part) on the first nslots slots of a directory block, guarded
// by g: a slot holds an in-range inode number and a name of at most namemax bytes (bound L_name for
// names already on disk; an empty slot has length 0 as RemName and a fresh block leave it); slot 0 is
// ".", slot 1 is ".."; other names are not dot names, are pairwise different and name different objects.
func VerifAssumeDirBlock(g bool, blk []byte, nslots uint64, self uint64, ninode uint64, namemax uint64) {
	for s := uint64(0); s < nslots; s++ {
		inum, l := VerifSlot(blk, s)
		verifrt.Assume(!g || inum < ninode)
		verifrt.Assume(!g || l <= namemax)
		verifrt.Assume(!g || inum == 0 || l >= 1)
		verifrt.Assume(!g || inum != 0 || l == 0)
		o := s * DIRENTSZ
		if s == 0 {
			verifrt.Assume(!g || (inum == self && l == 1 && blk[o+16] == '.'))
		} else if s == 1 {
			verifrt.Assume(!g || (inum != 0 && l == 2 && blk[o+16] == '.' && blk[o+17] == '.'))
		} else {
			// not a dot name
			verifrt.Assume(!g || inum == 0 || !(l == 1 && blk[o+16] == '.'))
			verifrt.Assume(!g || inum == 0 || !(l == 2 && blk[o+16] == '.' && blk[o+17] == '.'))
			verifrt.Assume(!g || inum != self)
		}
	}
	for s := uint64(2); s < nslots; s++ {
		is, ls := VerifSlot(blk, s)
		for t := s + 1; t < nslots; t++ {
			it, lt := VerifSlot(blk, t)
			same := ls == lt
			for i := uint64(0); i < namemax; i++ {
				same = same && (i >= ls || blk[s*DIRENTSZ+16+i] == blk[t*DIRENTSZ+16+i])
			}
			verifrt.Assume(!g || is == 0 || it == 0 || !same)
			// one name per object within a directory
			verifrt.Assume(!g || is == 0 || it == 0 || is != it)
		}
	}
}

func vAnd(a, b bool) bool { return a && b }

// VerifDirBlockOk is the clause-for-clause counterpart of VerifAssumeDirBlock as a predicate (for the
// post-state of a step), restricted to the slots below the directory's size.
func VerifDirBlockOk(g bool, blk []byte, nslots uint64, size uint64, self uint64, ninode uint64, namemax uint64) bool {
	ok := true
	for s := uint64(0); s < nslots; s++ {
		in := g && s*DIRENTSZ < size
		inum, l := VerifSlot(blk, s)
		ok = vAnd(ok, !in || inum < ninode)
		ok = vAnd(ok, !in || l <= MAXNAMELEN)
		ok = vAnd(ok, !in || inum == 0 || l >= 1)
		o := s * DIRENTSZ
		if s == 0 {
			ok = vAnd(ok, !in || (inum == self && l == 1 && blk[o+16] == '.'))
		} else if s == 1 {
			ok = vAnd(ok, !in || (inum != 0 && l == 2 && blk[o+16] == '.' && blk[o+17] == '.'))
		} else {
			ok = vAnd(ok, !in || inum == 0 || !(l == 1 && blk[o+16] == '.'))
			ok = vAnd(ok, !in || inum == 0 || !(l == 2 && blk[o+16] == '.' && blk[o+17] == '.'))
			ok = vAnd(ok, !in || inum != self)
		}
	}
	if namemax == 0 {
		// pairwise uniqueness is established by the caller (frame + the request's name occurs once)
		return ok
	}
	for s := uint64(2); s < nslots; s++ {
		is, ls := VerifSlot(blk, s)
		for t := s + 1; t < nslots; t++ {
			in := g && t*DIRENTSZ < size
			it, lt := VerifSlot(blk, t)
			same := ls == lt
			for i := uint64(0); i < namemax; i++ {
				same = same && (i >= ls || blk[s*DIRENTSZ+16+i] == blk[t*DIRENTSZ+16+i])
			}
			ok = vAnd(ok, !in || is == 0 || it == 0 || !same)
			ok = vAnd(ok, !in || is == 0 || it == 0 || is != it)
		}
	}
	return ok
}
