package alloc

// VerifBit reports whether number n is marked in use in the allocator's in-memory bitmap.
func (a *Alloc) VerifBit(n uint64) bool {
	a.mu.Lock()
	defer a.mu.Unlock()
	return a.bitmap[n/8]&(1<<(n%8)) != 0
}
