package alloc

import "github.com/mit-pdos/go-nfsd/verifrt"

// VerifBit reports whether number n is marked in use in the allocator's in-memory bitmap.
func (a *Alloc) VerifBit(n uint64) bool {
	a.mu.Lock()
	defer a.mu.Unlock()
	return a.bitmap[n/8]&(1<<(n%8)) != 0
}

// VerifAllocContract (C05, "the space can be used again"): the real first-fit allocator on an arbitrary
// bitmap of nbytes bytes and an arbitrary scan position. AllocNum returns 0 only when no number in
// 1..max-1 is free (number 0 is never handed out... unless its bit is clear, see below), otherwise a
// number whose bit was clear, sets exactly that bit; FreeNum clears exactly the bit of its number. This is
// the contract the step harnesses substitute for the allocator (`realalloc=0`).
func VerifAllocContract() {
	nb := verifrt.Param("allocbytes", 2)
	bm := verifrt.Bytes("bitmap", nb)
	pre := make([]byte, nb)
	copy(pre, bm)
	a := MkAlloc(bm)
	a.next = verifrt.U64("next")
	verifrt.Assume(a.next < nb*8)
	// number 0 is reserved by every user of the allocator (mkfs marks block 0 and inode 0)
	verifrt.Assume(pre[0]&1 == 1)
	n := a.AllocNum()
	w := verifrt.U64("wit")
	verifrt.Assume(w < nb*8)
	wasFree := pre[w/8]&(1<<(w%8)) == 0
	if n == 0 {
		verifrt.Assert(!wasFree, "exhaustion-is-reported-only-when-nothing-is-free")
		verifrt.Cover("full")
	} else {
		verifrt.Assert(n < nb*8 && pre[n/8]&(1<<(n%8)) == 0, "number-handed-out-was-free")
		verifrt.Assert(a.VerifBit(n), "number-handed-out-is-marked")
		verifrt.Assert(w == n || a.VerifBit(w) == !wasFree, "allocation-touches-no-other-number")
		verifrt.Cover("allocated")
		a.FreeNum(n)
		verifrt.Assert(!a.VerifBit(n), "freed-number-is-free-again")
		verifrt.Assert(a.VerifBit(w) == !wasFree, "free-touches-no-other-number")
		// and it can be used again
		m := a.AllocNum()
		verifrt.Assert(m != 0, "freed-space-can-be-allocated-again")
	}
	verifrt.Assert(a.NumFree() <= nb*8, "numfree-in-range")
	verifrt.Cover("end")
}
