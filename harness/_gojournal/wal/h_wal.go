package wal

import (
	"github.com/goose-lang/goose/machine/disk"
	"github.com/mit-pdos/go-nfsd/verifrt"
)

// C01(a) / C07: the real write-ahead log code of go-journal (circularAppender.Append, installBlocks +
// Advance, recoverCircular) against a recording disk; the crash point and the set of un-barriered writes
// that reached the disk are solver variables.

type vEv struct {
	barrier bool
	a       uint64
	v       []byte
}

// vRec records writes and barriers instead of applying them.
type vRec struct {
	base *verifrt.Disk
	evs  []vEv
}

func (d *vRec) Read(a uint64) disk.Block   { panic("vRec: the code under test does not read here") }
func (d *vRec) ReadTo(a uint64, b disk.Block) { panic("vRec.ReadTo") }
func (d *vRec) Write(a uint64, v disk.Block) {
	d.evs = append(d.evs, vEv{a: a, v: v})
}
func (d *vRec) Size() uint64 { return d.base.Size() }
func (d *vRec) Barrier()     { d.evs = append(d.evs, vEv{barrier: true}) }
func (d *vRec) Close()       {}

// vCrash is the disk found after power failed once the first k recorded events had been issued: every
// write before the last barrier among them is on disk; a later one is on disk iff its mask bit is set.
type vCrash struct {
	rec  *vRec
	k    uint64
	mask uint64
}

func (c *vCrash) applied(i int) bool {
	if uint64(i) >= c.k {
		return false
	}
	// is there a barrier at an index in (i, k)?
	covered := false
	for j := i + 1; j < len(c.rec.evs); j++ {
		if c.rec.evs[j].barrier && uint64(j) < c.k {
			covered = true
		}
	}
	return covered || (c.mask>>uint(i))&1 == 1
}

func (c *vCrash) Read(a uint64) disk.Block {
	cur := c.rec.base.Peek(a)
	for i, ev := range c.rec.evs {
		if !ev.barrier {
			cur = verifrt.Ite(ev.a == a && c.applied(i), ev.v, cur)
		}
	}
	return cur
}
func (c *vCrash) ReadTo(a uint64, b disk.Block) { panic("vCrash.ReadTo") }
func (c *vCrash) Write(a uint64, v disk.Block) {
	// recovery must not write: a crash during recovery is then the same crash image again
	verifrt.Assert(false, "recovery-issues-no-write")
}
func (c *vCrash) Size() uint64 { return c.rec.base.Size() }
func (c *vCrash) Barrier()     {}
func (c *vCrash) Close()       {}

type vReader interface{ Read(a uint64) disk.Block }

// vLogical: the block at address a of the logical disk (home block overlaid with the log entries)
func vLogical(d vReader, bufs []Update, a uint64) []byte {
	cur := d.Read(a)
	for _, u := range bufs {
		cur = verifrt.Ite(u.Addr == a, u.Block, cur)
	}
	return cur
}

type vBase struct{ d *verifrt.Disk }

func (b vBase) Read(a uint64) disk.Block { return b.d.Peek(a) }

// vPre builds an arbitrary valid pre-state: a raw disk whose log headers describe [start, end) with at
// most `live` entries, positions below 2^12, entries addressing the data region; returns the real
// recovery result on it.
func vPre(live uint64) (*verifrt.Disk, *circularAppender, LogPosition, LogPosition, []Update) {
	d := verifrt.NewDisk("raw", verifrt.Param("disksz", 2000))
	// bound G_wal: the log start is a representative position (beginning, just before / at / after the
	// wrap-around of the 511-slot circular log, and after several laps), the number of live entries is
	// 0..live; all of it is written into the headers the real recovery code decodes
	start := verifrt.Choose("log_start", 0, 510, 511, 1021, 3000)
	n := verifrt.Choose("log_live", 0, 1, 2, 3, 4, 5, 6, 7, 8)
	if n > live {
		verifrt.Assume(false)
	}
	end := start + n
	h1, h2 := d.Init(0), d.Init(1)
	for i := uint64(0); i < 8; i++ {
		verifrt.Assume(h1[i] == byte(end>>(8*i)))
		verifrt.Assume(h2[i] == byte(start>>(8*i)))
	}
	circ, s2, e2, bufs := recoverCircular(d)
	verifrt.Assert(uint64(s2) == start && uint64(e2) == end && uint64(len(bufs)) == n, "recovery-decodes-the-headers")
	for _, u := range bufs {
		verifrt.Assume(u.Addr >= LOGDISKBLOCKS && u.Addr < d.Size())
	}
	return d, circ, s2, e2, bufs
}

func vWitness(d *verifrt.Disk, name string) (uint64, uint64) {
	a := verifrt.U64(name + "_addr")
	verifrt.Assume(a >= LOGDISKBLOCKS && a < d.Size())
	q := verifrt.U64(name + "_byte")
	verifrt.Assume(q < 4096)
	return a, q
}

// VerifWalAppend: a crash at any point of Append recovers to the state before or after the whole
// group, never a mixture; once Append has returned the group is durable.
func VerifWalAppend() {
	live := verifrt.Param("live", 2)
	d, circ, start, end, bufs := vPre(live)
	n := verifrt.Choose("nupd", 1, 2, 3)
	if n > verifrt.Param("group", 2) {
		verifrt.Assume(false)
	}
	var upds []Update
	for i := uint64(0); i < n; i++ {
		a := verifrt.U64("upd_addr")
		verifrt.Assume(a >= LOGDISKBLOCKS && a < d.Size())
		upds = append(upds, Update{Addr: a, Block: verifrt.Bytes("upd_blk", 4096)})
	}
	rec := &vRec{base: d}
	circ.Append(rec, end, upds)
	m := uint64(len(rec.evs))
	// the crash point is enumerated (at most m+1 <= 7 values); which un-barriered writes reached the
	// disk is the solver's choice (mask)
	k := verifrt.Choose("crash_after", 0, 1, 2, 3, 4, 5, 6, 7)
	if k > m {
		verifrt.Assume(false)
	}
	cr := &vCrash{rec: rec, k: k, mask: verifrt.U64("lost_mask")}
	_, start2, end2, bufs2 := recoverCircular(cr)
	a1, q1 := vWitness(d, "w1")
	a2, q2 := vWitness(d, "w2")
	pre1 := vLogical(vBase{d}, bufs, a1)[q1]
	post2 := vLogical(vBase{d}, append(append([]Update{}, bufs...), upds...), a2)[q2]
	rec1 := vLogical(cr, bufs2, a1)[q1]
	rec2 := vLogical(cr, bufs2, a2)[q2]
	verifrt.Assert(rec1 == pre1 || rec2 == post2, "all-or-nothing")
	verifrt.Assert(start2 == start && (end2 == end || uint64(end2) == uint64(end)+n), "recovered-positions-are-old-or-new")
	if k == m {
		verifrt.Assert(rec2 == post2 && uint64(end2) == uint64(end)+n, "durable-once-append-returned")
		verifrt.Cover("durable")
	}
	verifrt.Cover("end")
}

// VerifWalInstall: installing the logged blocks to their home locations and advancing the log start,
// with a crash at any point, never changes the logical disk.
func VerifWalInstall() {
	live := verifrt.Param("live", 2)
	d, _, start, end, bufs := vPre(live)
	rec := &vRec{base: d}
	installBlocks(rec, bufs)
	rec.Barrier()
	Advance(rec, end)
	m := uint64(len(rec.evs))
	k := verifrt.Choose("crash_after", 0, 1, 2, 3, 4, 5, 6, 7, 8, 9, 10, 11)
	if k > m {
		verifrt.Assume(false)
	}
	cr := &vCrash{rec: rec, k: k, mask: verifrt.U64("lost_mask")}
	_, start2, end2, bufs2 := recoverCircular(cr)
	a1, q1 := vWitness(d, "w1")
	pre1 := vLogical(vBase{d}, bufs, a1)[q1]
	rec1 := vLogical(cr, bufs2, a1)[q1]
	verifrt.Assert(rec1 == pre1, "install-preserves-the-logical-disk")
	verifrt.Assert(end2 == end && (start2 == start || start2 == end), "start-is-old-or-advanced")
	if uint64(end) > uint64(start) {
		verifrt.Cover("nonempty")
	}
	verifrt.Cover("end")
}
