package main

import (
	"fmt"
	"go/types"
	"strings"

	"golang.org/x/tools/go/ssa"
)

const RT = "github.com/mit-pdos/go-nfsd/verifrt."

// Event kinds, mirrored in verifrt.
const (
	EvAcquire  = 1  // A = lock address
	EvRelease  = 2  // A = lock address
	EvAppend   = 3  // A = number of blocks, B = returned position
	EvFlush    = 4  // A = position flushed up to
	EvRawWrite = 5  // A = block number (direct disk write)
	EvBegin    = 6  // transaction begin
	EvGo       = 7  // goroutine spawned
	EvAlloc    = 8  // A = number returned by the allocator, Obj = allocator
	EvFree     = 9  // A = number freed, Obj = allocator
	EvRawRead  = 10 // A = block number (direct disk read)
	EvRefused  = 11 // journal append refused (too large), A = number of blocks
	EvMutex    = 12 // A = 1 lock, 0 unlock; Obj = mutex
	EvAccess   = 13 // watched-object access: A = 1 write / 0 read, B = field index, Obj = object
	EvMark     = 14 // harness-defined marker, A = value
	EvBarrier  = 15
)

type Event struct {
	Kind    int
	A, B, C *Term
	Obj     Value
	Site    string
}

type SymDisk struct {
	name  string
	init  *Term // initial logical disk (Array2)
	cur   *Term
	size  *Term
	reads []*Term
	written []*Term // block addresses written since the disk was created
}

type World struct {
	disks    []*SymDisk
	diskOf   map[Loc]*SymDisk
	events   []Event
	held     []*Term
	mutexes  map[Loc]bool
	pos      uint64 // next journal position
	watch    map[string]bool
	nextDisk int
	allocRep map[Loc]*allocRep
	releasedSinceBegin bool
	lastClock          *Term
	accessCount        uint64
	watchRules         map[string]*watchRule
}

type allocRep struct{ base, stride, k uint64 }

type watchRule struct {
	mu     string
	fields map[string]bool
}

func newWorld() *World {
	return &World{diskOf: map[Loc]*SymDisk{}, mutexes: map[Loc]bool{}, watch: map[string]bool{}, pos: 1, allocRep: map[Loc]*allocRep{}, watchRules: map[string]*watchRule{}}
}

func (w *World) event(ev Event) { w.events = append(w.events, ev) }

func (w *World) eventStrings() []string {
	var out []string
	for _, ev := range w.events {
		n := map[int]string{EvAcquire: "acq", EvRelease: "rel", EvAppend: "append", EvFlush: "flush", EvRawWrite: "rawwrite",
			EvBegin: "begin", EvGo: "go", EvAlloc: "alloc", EvFree: "free", EvRawRead: "rawread", EvRefused: "refused",
			EvMutex: "mutex", EvAccess: "access", EvMark: "mark", EvBarrier: "barrier"}[ev.Kind]
		if ev.Kind == EvMutex {
			continue
		}
		if ev.Kind == EvAccess {
			out = append(out, "unlocked-access@"+ev.Site)
			continue
		}
		s := n
		if ev.A != nil && ev.A.Op == "c" {
			s += fmt.Sprintf("(%d)", ev.A.C)
		} else if ev.A != nil {
			s += "(sym)"
		}
		out = append(out, s)
	}
	return out
}

func fieldLoc(p Value, name string, t types.Type) Loc {
	sl := p.(Ptr).loc.(*StructLoc)
	st := t.Underlying().(*types.Struct)
	for i := 0; i < st.NumFields(); i++ {
		if st.Field(i).Name() == name {
			return sl.f[i]
		}
	}
	panic("no field " + name)
}

func recvElem(fn *ssa.Function) types.Type {
	return fn.Signature.Recv().Type().(*types.Pointer).Elem()
}

func (e *Engine) diskFor(p Value) *SymDisk {
	l := p.(Ptr).loc
	d, ok := e.world.diskOf[l]
	if !ok {
		e.end("unsupported", "disk object not created by verifrt.NewDisk")
	}
	return d
}

func (e *Engine) readBlock(d *SymDisk, a *Term) Value {
	d.reads = append(d.reads, a)
	return SliceV{sa: NewSArr(8, Select(d.cur, a)), off: c64(0), len: c64(4096), cap: c64(4096)}
}

func (e *Engine) blockTerm(v SliceV) *Term {
	if !e.decide(Cmp("=", v.len, c64(4096))) {
		e.end("panic", "disk write of a buffer that is not one block at "+e.cur)
	}
	off := e.uniqueValue(v.off)
	if off.Op == "c" && off.C == 0 {
		return v.sa.Clone().Flush()
	}
	na := ZeroSArr(8)
	for i := uint64(0); i < 4096; i++ {
		na.Store(c64(i), v.sa.Load(Bin("bvadd", off, c64(i))))
	}
	return na.Flush()
}

func (e *Engine) writeBlock(d *SymDisk, a *Term, v SliceV) {
	d.written = append(d.written, a)
	d.cur = Store(d.cur, a, e.blockTerm(v))
}

func strName(v Value) string {
	s := v.(StrV)
	if s.len.Op != "c" {
		panic("intrinsic name must be a constant string")
	}
	b := make([]byte, s.len.C)
	for i := range b {
		t := s.a.Load(Bin("bvadd", s.off, c64(uint64(i))))
		b[i] = byte(t.C)
	}
	return string(b)
}

func nop(e *Engine, fn *ssa.Function, a []Value) Value { return nil }

func allStubs() map[string]stubFn {
	m := map[string]stubFn{}
	rtStubs(m)
	envStubs(m)
	return m
}

// ---------------------------------------------------------------- verifrt intrinsics
func rtStubs(m map[string]stubFn) {
	m[RT+"U64"] = func(e *Engine, fn *ssa.Function, a []Value) Value { return e.freshVar(strName(a[0]), BV(64)) }
	m[RT+"U32"] = func(e *Engine, fn *ssa.Function, a []Value) Value { return e.freshVar(strName(a[0]), BV(32)) }
	m[RT+"U8"] = func(e *Engine, fn *ssa.Function, a []Value) Value { return e.freshVar(strName(a[0]), BV(8)) }
	m[RT+"Bool"] = func(e *Engine, fn *ssa.Function, a []Value) Value { return e.freshVar(strName(a[0]), BoolS) }
	m[RT+"Bytes"] = func(e *Engine, fn *ssa.Function, a []Value) Value {
		n := a[1].(*Term)
		return SliceV{sa: NewSArr(8, e.freshArr(strName(a[0]), 8, n)), off: c64(0), len: n, cap: n}
	}
	m[RT+"Words"] = func(e *Engine, fn *ssa.Function, a []Value) Value {
		n := a[1].(*Term)
		return SliceV{sa: NewSArr(64, e.freshArr(strName(a[0]), 64, n)), off: c64(0), len: n, cap: n}
	}
	m[RT+"String"] = func(e *Engine, fn *ssa.Function, a []Value) Value {
		n := a[1].(*Term)
		return StrV{a: NewSArr(8, e.freshArr(strName(a[0]), 8, n)), off: c64(0), len: n}
	}
	m[RT+"Name"] = func(e *Engine, fn *ssa.Function, a []Value) Value {
		n, cmp := a[1].(*Term), a[2].(*Term)
		if cmp.Op != "c" {
			panic("Name: cmp must be concrete")
		}
		v := e.freshArr(strName(a[0]), 8, cmp)
		arr := NewSArr(8, ConstArr(8, Const(8, 'x')))
		for i := uint64(0); i < cmp.C; i++ {
			arr.Store(c64(i), Select(v, c64(i)))
		}
		return StrV{a: arr, off: c64(0), len: n}
	}
	m[RT+"Assume"] = func(e *Engine, fn *ssa.Function, a []Value) Value { e.Assume(a[0].(*Term)); return nil }
	m[RT+"Assert"] = func(e *Engine, fn *ssa.Function, a []Value) Value {
		e.Assert(a[0].(*Term), strName(a[1]), "", nil)
		return nil
	}
	m[RT+"AssertK"] = func(e *Engine, fn *ssa.Function, a []Value) Value {
		e.Assert(a[0].(*Term), strName(a[1]), strName(a[2]), a[3].(*Term))
		return nil
	}
	m[RT+"Cover"] = func(e *Engine, fn *ssa.Function, a []Value) Value {
		if e.live() {
			e.ensureFeasible()
			e.sh.res.mu.Lock()
			e.sh.res.Covers[strName(a[0])]++
			e.sh.res.mu.Unlock()
		}
		e.pathCovers = append(e.pathCovers, strName(a[0]))
		return nil
	}
	m[RT+"Choose"] = func(e *Engine, fn *ssa.Function, a []Value) Value {
		s := a[1].(SliceV)
		n := int(s.len.C)
		k := e.choose(n)
		var v *Term
		if s.sa != nil {
			v = s.sa.Load(Bin("bvadd", s.off, c64(uint64(k))))
		}
		e.choices = append(e.choices, v.C)
		return v
	}
	m[RT+"Param"] = func(e *Engine, fn *ssa.Function, a []Value) Value {
		name := strName(a[0])
		if v, ok := e.cfg.Params[name]; ok {
			return c64(v)
		}
		return a[1]
	}
	m[RT+"Symbolic"] = func(e *Engine, fn *ssa.Function, a []Value) Value { return BoolC(true) }
	m[RT+"Concrete"] = func(e *Engine, fn *ssa.Function, a []Value) Value {
		t := a[0].(*Term)
		u := e.uniqueValue(t)
		if u.Op == "c" {
			return u
		}
		// pick the model value and assume it (an explicit under-approximation chosen by the harness)
		v := e.record(func() uint64 {
			e.ensureFeasible()
			vals, ok := e.sol.Model(BoolC(true), []*Term{t})
			if !ok {
				return 0
			}
			return vals[0]
		})
		c := Const(t.W(), v)
		e.Assume(Cmp("=", t, c))
		return c
	}
	m[RT+"Split"] = func(e *Engine, fn *ssa.Function, a []Value) Value {
		// case-split a value below a small bound: returns a concrete value on each path
		t, n := a[0].(*Term), a[1].(*Term)
		return c64(e.concretize(t, n))
	}
	m[RT+"Ite"] = func(e *Engine, fn *ssa.Function, a []Value) Value {
		c := a[0].(*Term)
		x, y := a[1].(SliceV), a[2].(SliceV)
		xt, yt := e.wholeArr(x), e.wholeArr(y)
		return SliceV{sa: NewSArr(8, Ite(c, xt, yt)), off: c64(0), len: x.len, cap: x.len}
	}
	m[RT+"IteU64"] = func(e *Engine, fn *ssa.Function, a []Value) Value {
		return Ite(a[0].(*Term), a[1].(*Term), a[2].(*Term))
	}
	m[RT+"BytesEq"] = func(e *Engine, fn *ssa.Function, a []Value) Value {
		// whole-array equality as one term (extensional), lengths must agree
		x, y := a[0].(SliceV), a[1].(SliceV)
		return And(Cmp("=", x.len, y.len), Cmp("=", e.wholeArr(x), e.wholeArr(y)))
	}
	m[RT+"OnReturn"] = func(e *Engine, fn *ssa.Function, a []Value) Value {
		name := strName(a[0])
		h := a[1].(IfaceV).v.(*ClosureV)
		e.hooks[name] = append(e.hooks[name], h)
		return nil
	}
	m[RT+"OnCall"] = func(e *Engine, fn *ssa.Function, a []Value) Value {
		name := strName(a[0])
		h := a[1].(IfaceV).v.(*ClosureV)
		e.prehooks[name] = append(e.prehooks[name], h)
		return nil
	}
	m[RT+"RunSpawned"] = func(e *Engine, fn *ssa.Function, a []Value) Value {
		for len(e.spawned) > 0 {
			c := e.spawned[0]
			e.spawned = e.spawned[1:]
			args := c.bound
			e.callF(c.fn, args, c.env)
		}
		return nil
	}
	m[RT+"NumSpawned"] = func(e *Engine, fn *ssa.Function, a []Value) Value { return c64(uint64(len(e.spawned))) }
	m[RT+"AllocRep"] = func(e *Engine, fn *ssa.Function, a []Value) Value {
		l := a[0].(IfaceV).v.(Ptr).loc
		e.world.allocRep[l] = &allocRep{base: a[1].(*Term).C, stride: a[2].(*Term).C}
		_ = a[3]
		return nil
	}
	m[RT+"Mark"] = func(e *Engine, fn *ssa.Function, a []Value) Value {
		e.world.event(Event{Kind: EvMark, A: a[0].(*Term), Site: e.cur})
		return nil
	}
	m[RT+"Watch"] = func(e *Engine, fn *ssa.Function, a []Value) Value {
		// "pkg.Type" (inode-lock rule) or "pkg.Type|mu|f1,f2" (fields f1,f2 protected by mutex field mu)
		// or "pkg.Type|atomic|f1,f2" (fields only accessed through sync/atomic)
		parts := strings.Split(strName(a[0]), "|")
		e.world.watch[parts[0]] = true
		if len(parts) == 3 {
			r := &watchRule{mu: parts[1], fields: map[string]bool{}}
			for _, f := range strings.Split(parts[2], ",") {
				r.fields[f] = true
			}
			e.world.watchRules[parts[0]] = r
		}
		return nil
	}
	m[RT+"Forced"] = func(e *Engine, fn *ssa.Function, a []Value) Value {
		// returns constant true when the path condition entails c (so that guarded assumptions become
		// unguarded and their bounds can be used syntactically); otherwise c itself
		c := a[0].(*Term)
		if c.IsConst() {
			return c
		}
		v := e.record(func() uint64 {
			e.ensureFeasible()
			if e.sol.CheckWith(Not(c)) == "unsat" {
				return 1
			}
			return 0
		})
		if v == 1 {
			return BoolC(true)
		}
		return c
	}
	m[RT+"Appended"] = func(e *Engine, fn *ssa.Function, a []Value) Value {
		for _, ev := range e.world.events {
			if ev.Kind == EvAppend && ev.A != nil && !(ev.A.Op == "c" && ev.A.C == 0) {
				return BoolC(true)
			}
		}
		return BoolC(false)
	}
	m[RT+"AccessCount"] = func(e *Engine, fn *ssa.Function, a []Value) Value { return c64(e.world.accessCount) }
	m[RT+"Events"] = func(e *Engine, fn *ssa.Function, a []Value) Value {
		// materialise []verifrt.Event{Kind, A, B uint64; Obj interface{}}
		el := fn.Signature.Results().At(0).Type().Underlying().(*types.Slice).Elem()
		cells := make([]Loc, len(e.world.events))
		for i, ev := range e.world.events {
			l := newLoc(el).(*StructLoc)
			l.f[0].Store(c64(uint64(ev.Kind)))
			if ev.A != nil {
				l.f[1].Store(ZExt(64, ev.A))
			}
			if ev.B != nil {
				l.f[2].Store(ZExt(64, ev.B))
			}
			if ev.C != nil {
				l.f[3].Store(ZExt(64, ev.C))
			}
			if ev.Obj != nil {
				l.f[4].Store(ev.Obj)
			}
			cells[i] = l
		}
		n := c64(uint64(len(cells)))
		return SliceV{cells: cells, off: c64(0), len: n, cap: n}
	}
	// disks
	m[RT+"NewDisk"] = func(e *Engine, fn *ssa.Function, a []Value) Value {
		name := strName(a[0])
		sz := a[1].(*Term)
		l := newLoc(fn.Signature.Results().At(0).Type().(*types.Pointer).Elem()).(*StructLoc)
		l.f[0].Store(sz)
		k := e.freshCnt["disk:"+name]
		e.freshCnt["disk:"+name] = k + 1
		init := Var(fmt.Sprintf("LD_%s#%d", name, k), Arr2)
		d := &SymDisk{name: fmt.Sprintf("%s#%d", name, k), init: init, cur: init, size: sz}
		e.world.disks = append(e.world.disks, d)
		e.world.diskOf[l] = d
		return Ptr{loc: l}
	}
	m[RT+"ZeroDisk"] = func(e *Engine, fn *ssa.Function, a []Value) Value {
		name := strName(a[0])
		sz := a[1].(*Term)
		l := newLoc(fn.Signature.Results().At(0).Type().(*types.Pointer).Elem()).(*StructLoc)
		l.f[0].Store(sz)
		zero := ConstArr(8, Const(8, 0))
		init := mk(&Term{Op: "constarr2", S: Arr2, Args: []*Term{zero}})
		d := &SymDisk{name: name + "#z", init: init, cur: init, size: sz}
		e.world.disks = append(e.world.disks, d)
		e.world.diskOf[l] = d
		return Ptr{loc: l}
	}
	m[RT+"CloneDisk"] = func(e *Engine, fn *ssa.Function, a []Value) Value {
		src := e.diskFor(a[0])
		l := newLoc(fn.Signature.Results().At(0).Type().(*types.Pointer).Elem()).(*StructLoc)
		l.f[0].Store(src.size)
		d := &SymDisk{name: src.name + "'", init: src.init, cur: src.cur, size: src.size}
		e.world.disks = append(e.world.disks, d)
		e.world.diskOf[l] = d
		return Ptr{loc: l}
	}
	m[RT+"SameDisk"] = func(e *Engine, fn *ssa.Function, a []Value) Value {
		// whole-disk equality of the current logical contents at a witness block
		x, y := e.diskFor(a[0]), e.diskFor(a[1])
		b := a[2].(*Term)
		return Cmp("=", Select(x.cur, b), Select(y.cur, b))
	}
	D := "(*github.com/mit-pdos/go-nfsd/verifrt.Disk)."
	m[D+"Read"] = func(e *Engine, fn *ssa.Function, a []Value) Value {
		d := e.diskFor(a[0])
		blk := a[1].(*Term)
		if !e.decide(Cmp("bvult", blk, d.size)) {
			e.end("panic", "disk read beyond the end of the disk at "+e.cur)
		}
		e.world.event(Event{Kind: EvRawRead, A: blk, Site: e.cur})
		return e.readBlock(d, blk)
	}
	m[D+"ReadTo"] = func(e *Engine, fn *ssa.Function, a []Value) Value {
		e.end("unsupported", "Disk.ReadTo")
		return nil
	}
	m[D+"Write"] = func(e *Engine, fn *ssa.Function, a []Value) Value {
		d := e.diskFor(a[0])
		blk := a[1].(*Term)
		if !e.decide(Cmp("bvult", blk, d.size)) {
			e.end("panic", "disk write beyond the end of the disk at "+e.cur)
		}
		e.world.event(Event{Kind: EvRawWrite, A: blk, Site: e.cur})
		e.writeBlock(d, blk, a[2].(SliceV))
		return nil
	}
	m[D+"Barrier"] = func(e *Engine, fn *ssa.Function, a []Value) Value {
		e.world.event(Event{Kind: EvBarrier, Site: e.cur})
		return nil
	}
	m[D+"Close"] = nop
	m[D+"Size"] = func(e *Engine, fn *ssa.Function, a []Value) Value { return e.diskFor(a[0]).size }
	// Peek reads the current logical block without recording an event (for post-state assertions)
	m[D+"Peek"] = func(e *Engine, fn *ssa.Function, a []Value) Value {
		d := e.diskFor(a[0])
		return e.readBlock(d, a[1].(*Term))
	}
	// AssumeZero: the pre-state assumption "block n is all zero" applied by substitution (cheaper for
	// the solver than an array equation); n is a free block that nothing has read yet
	m[D+"AssumeZero"] = func(e *Engine, fn *ssa.Function, a []Value) Value {
		d := e.diskFor(a[0])
		n := e.uniqueValue(a[1].(*Term))
		d.cur = Store(d.cur, n, ConstArr(8, Const(8, 0)))
		return nil
	}
	// Unchanged: block blk has not been written since the disk was created (its logical contents are
	// those of the initial state)
	m[D+"Unchanged"] = func(e *Engine, fn *ssa.Function, a []Value) Value {
		d := e.diskFor(a[0])
		blk := a[1].(*Term)
		r := BoolC(true)
		for _, k := range d.written {
			r = And(r, Not(Cmp("=", blk, k)))
		}
		return r
	}
	// Init reads the initial logical block
	m[D+"Init"] = func(e *Engine, fn *ssa.Function, a []Value) Value {
		d := e.diskFor(a[0])
		blk := a[1].(*Term)
		d.reads = append(d.reads, blk)
		return SliceV{sa: NewSArr(8, Select(d.init, blk)), off: c64(0), len: c64(4096), cap: c64(4096)}
	}
}

// wholeArr returns the array term of a slice that starts at offset 0 of its backing store.
func (e *Engine) wholeArr(s SliceV) *Term {
	if s.sa == nil {
		return ConstArr(8, Const(8, 0))
	}
	off := e.uniqueValue(s.off)
	if off.Op != "c" || off.C != 0 {
		e.end("unsupported", "whole-array operation on a slice with non-zero offset")
	}
	return s.sa.Clone().Flush()
}

// ---------------------------------------------------------------- environment stubs
func envStubs(m map[string]stubFn) {
	m["github.com/mit-pdos/go-journal/util.DPrintf"] = nop
	m["log.Printf"] = nop
	m["log.Println"] = nop
	m["fmt.Printf"] = nop
	m["fmt.Println"] = nop
	m["github.com/goose-lang/goose/machine.Linearize"] = nop
	m["github.com/goose-lang/primitive.Linearize"] = nop
	m["fmt.Sprintf"] = func(e *Engine, fn *ssa.Function, a []Value) Value { return strConst("<fmt>") }
	m["fmt.Errorf"] = func(e *Engine, fn *ssa.Function, a []Value) Value {
		return IfaceV{t: types.Universe.Lookup("error").Type(), v: strConst("<error>")}
	}
	m["errors.New"] = func(e *Engine, fn *ssa.Function, a []Value) Value {
		return IfaceV{t: types.Universe.Lookup("error").Type(), v: strConst("<error>")}
	}
	m["sort.Slice"] = stubSortSlice
	// --- sync
	m["(*sync.Mutex).Lock"] = func(e *Engine, fn *ssa.Function, a []Value) Value {
		l := a[0].(Ptr).loc
		if l == nil {
			e.end("panic", "nil mutex at "+e.cur)
		}
		if e.world.mutexes[l] {
			e.end("blocked", "mutex locked twice by one thread at "+e.cur)
		}
		e.world.mutexes[l] = true
		e.world.event(Event{Kind: EvMutex, A: c64(1), Obj: a[0], Site: e.cur})
		return nil
	}
	m["(*sync.Mutex).Unlock"] = func(e *Engine, fn *ssa.Function, a []Value) Value {
		l := a[0].(Ptr).loc
		if !e.world.mutexes[l] {
			e.end("panic", "unlock of unlocked mutex at "+e.cur)
		}
		delete(e.world.mutexes, l)
		e.world.event(Event{Kind: EvMutex, A: c64(0), Obj: a[0], Site: e.cur})
		return nil
	}
	m["(*sync.Cond).Signal"] = nop
	m["(*sync.Cond).Broadcast"] = nop
	m["(*sync.Cond).Wait"] = func(e *Engine, fn *ssa.Function, a []Value) Value {
		e.end("blocked", "condition wait with no other thread to wake it at "+e.cur)
		return nil
	}
	m["sync.NewCond"] = func(e *Engine, fn *ssa.Function, a []Value) Value {
		return Ptr{loc: newLoc(fn.Signature.Results().At(0).Type().(*types.Pointer).Elem())}
	}
	atomicAdd := func(e *Engine, fn *ssa.Function, a []Value) Value {
		p := a[0].(Ptr)
		v := Bin("bvadd", p.loc.Load().(*Term), a[1].(*Term))
		p.loc.Store(v)
		return v
	}
	atomicLoad := func(e *Engine, fn *ssa.Function, a []Value) Value { return a[0].(Ptr).loc.Load() }
	atomicStore := func(e *Engine, fn *ssa.Function, a []Value) Value { a[0].(Ptr).loc.Store(a[1]); return nil }
	for _, n := range []string{"Uint32", "Uint64", "Int32", "Int64"} {
		m["sync/atomic.Add"+n] = atomicAdd
		m["sync/atomic.Load"+n] = atomicLoad
		m["sync/atomic.Store"+n] = atomicStore
	}
	// --- time
	m["time.Now"] = func(e *Engine, fn *ssa.Function, a []Value) Value {
		return zeroValue(fn.Signature.Results().At(0).Type())
	}
	m["(time.Time).UnixNano"] = func(e *Engine, fn *ssa.Function, a []Value) Value {
		// clock contract: successive readings are distinct and increasing
		t := e.freshVar("clock", BV(64))
		if e.world.lastClock != nil {
			e.Assume(Cmp("bvult", e.world.lastClock, t))
		}
		e.world.lastClock = t
		return t
	}
	m["(time.Time).Sub"] = func(e *Engine, fn *ssa.Function, a []Value) Value { return c64(0) }
	m["time.Since"] = func(e *Engine, fn *ssa.Function, a []Value) Value { return c64(0) }
	m["(time.Duration).Nanoseconds"] = func(e *Engine, fn *ssa.Function, a []Value) Value { return a[0] }
	m["github.com/mit-pdos/go-nfsd/inode.NfstimeNow"] = func(e *Engine, fn *ssa.Function, a []Value) Value {
		return StructV{e.freshVar("now_sec", BV(32)), e.freshVar("now_nsec", BV(32))}
	}
	m["(*github.com/mit-pdos/go-nfsd/util/stats.Op).Record"] = nop

	// --- journal contract (go-journal wal)
	W := "(*github.com/mit-pdos/go-journal/wal.Walog)."
	walDisk := func(e *Engine, fn *ssa.Function, a []Value) *SymDisk {
		d := fieldLoc(a[0], "d", recvElem(fn)).Load().(IfaceV).v
		return e.diskFor(d)
	}
	m[W+"Read"] = func(e *Engine, fn *ssa.Function, a []Value) Value {
		if e.cfg.Params["realwal"] == 1 {
			return e.callBody(fn, a, nil)
		}
		blk := e.uniqueValue(a[1].(*Term))
		d := walDisk(e, fn, a)
		if !e.decide(Cmp("bvult", blk, d.size)) {
			e.end("panic", "journal read beyond the end of the disk at "+e.cur)
		}
		return e.readBlock(d, blk)
	}
	m[W+"MemAppend"] = func(e *Engine, fn *ssa.Function, a []Value) Value {
		if e.cfg.Params["realwal"] == 1 {
			return e.callBody(fn, a, nil)
		}
		s := a[1].(SliceV)
		n := s.len.C
		d := walDisk(e, fn, a)
		if n > 511 {
			e.world.event(Event{Kind: EvRefused, A: c64(n), Site: e.cur})
			return TupleV{c64(0), BoolC(false)}
		}
		for i := uint64(0); i < n; i++ {
			u := s.cells[s.off.C+i].Load().(StructV)
			addr := e.uniqueValue(u[0].(*Term))
			if !e.decide(Cmp("bvult", addr, d.size)) {
				e.end("panic", "journal write beyond the end of the disk at "+e.cur)
			}
			e.writeBlock(d, addr, u[1].(SliceV))
		}
		e.world.pos += n
		p := c64(e.world.pos)
		e.world.event(Event{Kind: EvAppend, A: c64(n), B: p, Site: e.cur})
		return TupleV{p, BoolC(true)}
	}
	m[W+"Flush"] = func(e *Engine, fn *ssa.Function, a []Value) Value {
		if e.cfg.Params["realwal"] == 1 {
			return e.callBody(fn, a, nil)
		}
		e.world.event(Event{Kind: EvFlush, A: a[1].(*Term), Site: e.cur})
		return nil
	}
	m[W+"startBackgroundThreads"] = func(e *Engine, fn *ssa.Function, a []Value) Value {
		if e.cfg.Params["realwal"] == 1 {
			return e.callBody(fn, a, nil)
		}
		return nil
	}
	m[W+"Shutdown"] = nop

	// --- lock monitor (go-journal lockmap)
	m["github.com/mit-pdos/go-journal/lockmap.MkLockMap"] = func(e *Engine, fn *ssa.Function, a []Value) Value {
		return Ptr{loc: newLoc(fn.Signature.Results().At(0).Type().(*types.Pointer).Elem())}
	}
	L := "(*github.com/mit-pdos/go-journal/lockmap.LockMap)."
	m[L+"Acquire"] = func(e *Engine, fn *ssa.Function, a []Value) Value {
		x := a[1].(*Term)
		for _, h := range e.world.held {
			if h == x || e.decide(Cmp("=", h, x)) {
				e.end("blocked", "self-deadlock: lock acquired while already held by the same request at "+e.callerSite())
			}
		}
		// B = 1 iff x is greater than every lock currently held (ascending acquisition);
		// C = 1 iff some lock was released since the transaction began (two-phase discipline broken)
		asc := BoolC(true)
		for _, h := range e.world.held {
			asc = And(asc, Cmp("bvult", h, x))
		}
		c := c64(0)
		if e.world.releasedSinceBegin {
			c = c64(1)
		}
		e.world.held = append(e.world.held, x)
		e.world.event(Event{Kind: EvAcquire, A: x, B: Ite(asc, c64(1), c64(0)), C: c, Site: e.callerSite()})
		return nil
	}
	m[L+"Release"] = func(e *Engine, fn *ssa.Function, a []Value) Value {
		x := a[1].(*Term)
		for i, h := range e.world.held {
			if h == x || e.decide(Cmp("=", h, x)) {
				e.world.held = append(e.world.held[:i:i], e.world.held[i+1:]...)
				e.world.releasedSinceBegin = true
				// C = 1 iff the transaction has appended to the journal or this is an abort path is not
				// knowable here; the harness relates releases to append events by position
				e.world.event(Event{Kind: EvRelease, A: x, Site: e.callerSite()})
				return nil
			}
		}
		e.end("panic", "release of a lock that is not held at "+e.callerSite())
		return nil
	}

	// --- allocator contract (go-journal alloc)
	m["(*github.com/mit-pdos/go-journal/alloc.Alloc).allocBit"] = func(e *Engine, fn *ssa.Function, a []Value) Value {
		if e.cfg.Params["realalloc"] == 1 {
			n := e.callBody(fn, a, nil)
			e.world.event(Event{Kind: EvAlloc, A: n.(*Term), Obj: IfaceV{t: fn.Signature.Recv().Type(), v: a[0]}, Site: e.callerSite()})
			return n
		}
		bm := fieldLoc(a[0], "bitmap", recvElem(fn)).Load().(SliceV)
		if rep, ok := e.world.allocRep[a[0].(Ptr).loc]; ok {
			// representative mode (bound R_addr): the k-th allocation returns 0 or base + k*stride
			cand := c64(rep.base + rep.k*rep.stride)
			rep.k++
			fail := e.freshVar("allocfail", BoolS)
			obj := IfaceV{t: fn.Signature.Recv().Type(), v: a[0]}
			if e.decide(fail) {
				e.world.event(Event{Kind: EvAlloc, A: c64(0), Obj: obj, Site: e.callerSite()})
				return c64(0)
			}
			byteIdx := Bin("bvadd", bm.off, Bin("bvlshr", cand, c64(3)))
			bit := Const(8, 1<<(cand.C&7))
			old := bm.sa.Load(byteIdx)
			e.Assume(Cmp("=", Bin("bvand", old, bit), Const(8, 0)))
			bm.sa.Store(byteIdx, Bin("bvor", old, bit))
			e.world.event(Event{Kind: EvAlloc, A: cand, Obj: obj, Site: e.callerSite()})
			return cand
		}
		n := e.freshVar("alloc", BV(64))
		if e.decide(Cmp("=", n, c64(0))) {
			e.world.event(Event{Kind: EvAlloc, A: c64(0), Obj: IfaceV{t: fn.Signature.Recv().Type(), v: a[0]}, Site: e.callerSite()})
			return c64(0)
		}
		e.Assume(Cmp("bvult", n, Bin("bvshl", bm.len, c64(3))))
		byteIdx := Bin("bvadd", bm.off, Bin("bvlshr", n, c64(3)))
		bit := Bin("bvshl", Const(8, 1), Extract(7, 0, Bin("bvand", n, c64(7))))
		old := bm.sa.Load(byteIdx)
		e.Assume(Cmp("=", Bin("bvand", old, bit), Const(8, 0)))
		bm.sa.Store(byteIdx, Bin("bvor", old, bit))
		e.world.event(Event{Kind: EvAlloc, A: n, Obj: IfaceV{t: fn.Signature.Recv().Type(), v: a[0]}, Site: e.callerSite()})
		return n
	}
	m["(*github.com/mit-pdos/go-journal/alloc.Alloc).FreeNum"] = func(e *Engine, fn *ssa.Function, a []Value) Value {
		e.world.event(Event{Kind: EvFree, A: a[1].(*Term), Obj: IfaceV{t: fn.Signature.Recv().Type(), v: a[0]}, Site: e.callerSite()})
		return e.callBody(fn, a, nil)
	}
	m["github.com/mit-pdos/go-nfsd/fstxn.Begin"] = func(e *Engine, fn *ssa.Function, a []Value) Value {
		e.world.event(Event{Kind: EvBegin, Site: e.callerSite()})
		e.world.releasedSinceBegin = false
		return e.callBody(fn, a, nil)
	}
}

// callerSite is the position of the innermost frame inside go-nfsd (for monitor messages).
func (e *Engine) callerSite() string {
	for i := len(e.stack) - 1; i >= 0; i-- {
		f := e.stack[i]
		if f.Pkg != nil && strings.HasPrefix(f.Pkg.Pkg.Path(), "github.com/mit-pdos/go-nfsd") && !strings.HasSuffix(f.Pkg.Pkg.Path(), "verifrt") {
			return f.String()
		}
	}
	return e.cur
}

func stubSortSlice(e *Engine, fn *ssa.Function, a []Value) Value {
	s := a[0].(IfaceV).v.(SliceV)
	less := a[1].(*ClosureV)
	if s.len.Op != "c" {
		e.end("unsupported", "sort.Slice with symbolic length")
	}
	n := s.len.C
	lessf := func(i, j uint64) bool {
		r := e.callF(less.fn, []Value{c64(i), c64(j)}, less.env).(*Term)
		return e.decide(r)
	}
	swap := func(i, j uint64) {
		if s.sa != nil {
			x, y := s.sa.Load(Bin("bvadd", s.off, c64(i))), s.sa.Load(Bin("bvadd", s.off, c64(j)))
			s.sa.Store(Bin("bvadd", s.off, c64(i)), y)
			s.sa.Store(Bin("bvadd", s.off, c64(j)), x)
		} else {
			x, y := s.cells[s.off.C+i].Load(), s.cells[s.off.C+j].Load()
			s.cells[s.off.C+i].Store(y)
			s.cells[s.off.C+j].Store(x)
		}
	}
	if n > 12 {
		e.end("unsupported", "sort.Slice with more than 12 elements (pdqsort not modelled)")
	}
	// insertionSortLessFunc of Go's sort package (the algorithm used for n <= 12)
	for i := uint64(1); i < n; i++ {
		for j := i; j > 0 && lessf(j, j-1); j-- {
			swap(j, j-1)
		}
	}
	return nil
}

// ---- access monitors (C03/C14): watched struct types record field accesses
func (e *Engine) noteAccess(p Ptr, write bool) {}

func (e *Engine) watchedField(x *ssa.FieldAddr) bool {
	if len(e.world.watch) == 0 {
		return false
	}
	// accesses made by harness code itself are not the server's
	if fn := x.Parent(); fn != nil {
		if strings.Contains(e.prog.Fset.Position(fn.Pos()).Filename, "zz_verif_") {
			return false
		}
	}
	pt, ok := x.X.Type().Underlying().(*types.Pointer)
	if !ok {
		return false
	}
	named, ok := pt.Elem().(*types.Named)
	if !ok || named.Obj().Pkg() == nil {
		return false
	}
	return e.world.watch[named.Obj().Pkg().Path()+"."+named.Obj().Name()]
}

func (e *Engine) noteField(sl *StructLoc, x *ssa.FieldAddr, fr *frame) {
	if !e.watchedField(x) {
		return
	}
	st := x.X.Type().Underlying().(*types.Pointer).Elem().Underlying().(*types.Struct)
	named := x.X.Type().Underlying().(*types.Pointer).Elem().(*types.Named)
	if rule, ok := e.world.watchRules[named.Obj().Pkg().Path()+"."+named.Obj().Name()]; ok {
		fname := st.Field(x.Field).Name()
		if !rule.fields[fname] || strings.HasPrefix(fr.fn.Name(), "Mk") {
			return // not a protected field, or the constructor initialising a still private object
		}
		e.world.accessCount++
		if rule.mu == "atomic" {
			// the address may only flow into sync/atomic calls
			okAtomic := true
			if refs := x.Referrers(); refs != nil {
				for _, r := range *refs {
					c, isCall := r.(*ssa.Call)
					if !isCall || c.Call.StaticCallee() == nil || c.Call.StaticCallee().Pkg == nil || c.Call.StaticCallee().Pkg.Pkg.Path() != "sync/atomic" {
						if _, dbg := r.(*ssa.DebugRef); !dbg {
							okAtomic = false
						}
					}
				}
			}
			if !okAtomic {
				e.world.event(Event{Kind: EvAccess, A: c64(0), B: c64(uint64(x.Field)), Site: e.pos2(x.Pos(), fr.fn)})
			}
			return
		}
		for i := 0; i < st.NumFields(); i++ {
			if st.Field(i).Name() == rule.mu {
				mp, _ := sl.f[i].Load().(Ptr)
				if mp.loc == nil || !e.world.mutexes[mp.loc] {
					e.world.event(Event{Kind: EvAccess, A: c64(0), B: c64(uint64(x.Field)), Site: e.pos2(x.Pos(), fr.fn)})
				}
			}
		}
		return
	}
	// inode rule: the object's Inum field against the inode locks currently held.
	// Only accesses that are not trivially covered are recorded (A = 1 iff covered).
	var inum *Term
	for i := 0; i < st.NumFields(); i++ {
		if st.Field(i).Name() == "Inum" {
			inum, _ = sl.f[i].Load().(*Term)
		}
	}
	// only accesses made on behalf of a request (or of the shrinker thread) are of interest
	inReq := false
	for i := len(e.stack) - 1; i >= 0; i-- {
		f := e.stack[i]
		if strings.Contains(e.prog.Fset.Position(f.Pos()).Filename, "zz_verif_") {
			break // called from harness code (a hook or the harness body), not by the server
		}
		n := f.Name()
		if strings.HasPrefix(n, "NFSPROC3_") || n == "shrinker" || n == "DoShrink" {
			inReq = true
			break
		}
	}
	if !inReq {
		return
	}
	if st.Field(x.Field).Name() == "Inum" {
		return // immutable once the object exists: reading it needs no lock
	}
	e.world.accessCount++
	if inum == nil || (inum.Op == "c" && inum.C == 0) {
		return // not yet numbered: the object is still private to its creator
	}
	locked := BoolC(false)
	for _, h := range e.world.held {
		locked = Or(locked, Cmp("=", h, inum))
	}
	if locked.IsTrue() {
		return
	}
	e.world.event(Event{Kind: EvAccess, A: Ite(locked, c64(1), c64(0)), B: c64(uint64(x.Field)), C: ZExt(64, inum), Site: e.pos2(x.Pos(), fr.fn)})
}

// initGlobal gives selected package-level variables their initial values (package init functions are not run).
func (e *Engine) initGlobal(g *ssa.Global, l Loc) {
	if g.Pkg == nil {
		return
	}
	path := g.Pkg.Pkg.Path()
	if !(strings.HasPrefix(path, "github.com/mit-pdos/") || strings.HasPrefix(path, "github.com/zeldovich/go-rpcgen") ||
		strings.HasPrefix(path, "github.com/tchajed/") || strings.HasPrefix(path, "github.com/goose-lang/")) {
		return
	}
	if e.initDone == nil {
		e.initDone = map[*ssa.Package]bool{}
	}
	if e.initDone[g.Pkg] {
		return
	}
	e.initDone[g.Pkg] = true
	init := g.Pkg.Func("init")
	if init == nil || init.Blocks == nil {
		return
	}
	e.initPkg = append(e.initPkg, g.Pkg)
	e.callBody(init, nil, nil)
	e.initPkg = e.initPkg[:len(e.initPkg)-1]
}
