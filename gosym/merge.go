package main

import (
	"go/token"

	"golang.org/x/tools/go/ssa"
)

// pureInstr reports whether in can be evaluated without forking or side effects.
func (e *Engine) pureInstr(fr *frame, in ssa.Instruction) bool {
	switch x := in.(type) {
	case *ssa.BinOp:
		if x.Op == token.QUO || x.Op == token.REM {
			if c, ok := x.Y.(*ssa.Const); !ok || c.Value == nil {
				return false
			}
		}
		if x.Op == token.SHL || x.Op == token.SHR {
			if isSigned(x.Y.Type()) {
				return false
			}
		}
		if _, ok := e.get(fr, x.X).(*Term); !ok {
			return false
		}
		return true
	case *ssa.UnOp:
		if x.Op == token.MUL {
			p, ok := e.get(fr, x.X).(Ptr)
			return ok && p.loc != nil
		}
		return x.Op == token.NOT || x.Op == token.XOR || x.Op == token.SUB
	case *ssa.Convert:
		_, ok := e.get(fr, x.X).(*Term)
		return ok
	case *ssa.ChangeType, *ssa.Extract, *ssa.Field, *ssa.DebugRef:
		return true
	}
	return false
}

// runArm evaluates a side-effect-free arm starting at blk (entered from prev)
// until it reaches a join block (more than one predecessor). Values are written
// into fr.env (SSA dominance makes that safe).
func (e *Engine) runArm(fr *frame, blk, prev *ssa.BasicBlock, depth int) (*ssa.BasicBlock, *ssa.BasicBlock, bool) {
	skipJoinCheck := false
	for steps := 0; steps < 64; steps++ {
		if len(blk.Preds) > 1 && !skipJoinCheck {
			return blk, prev, true
		}
		skipJoinCheck = false
		for _, in := range blk.Instrs {
			switch x := in.(type) {
			case *ssa.Phi:
				if len(blk.Preds) == 1 {
					fr.env[x] = e.get(fr, x.Edges[0])
				}
				// phis of a merged join were already assigned
			case *ssa.Jump:
				prev, blk = blk, blk.Succs[0]
			case *ssa.If:
				c := e.get(fr, x.Cond).(*Term)
				if c.IsTrue() {
					prev, blk = blk, blk.Succs[0]
				} else if c.IsFalse() {
					prev, blk = blk, blk.Succs[1]
				} else {
					if depth > 6 {
						return nil, nil, false
					}
					j, ok := e.mergeIf(fr, blk, c, depth+1)
					if !ok {
						return nil, nil, false
					}
					prev, blk = nil, j
					skipJoinCheck = true
				}
			case ssa.Value:
				if !e.pureInstr(fr, in) {
					return nil, nil, false
				}
				fr.env[x] = e.eval(fr, x)
			default:
				return nil, nil, false
			}
		}
	}
	return nil, nil, false
}

// mergeIf tries to if-convert the diamond rooted at ifBlk. On success the phis of
// the join block are assigned and the join block is returned.
func (e *Engine) mergeIf(fr *frame, ifBlk *ssa.BasicBlock, c *Term, depth int) (*ssa.BasicBlock, bool) {
	tj, tp, ok1 := e.runArm(fr, ifBlk.Succs[0], ifBlk, depth)
	if !ok1 {
		return nil, false
	}
	fj, fp, ok2 := e.runArm(fr, ifBlk.Succs[1], ifBlk, depth)
	if !ok2 || tj != fj || tp == nil || fp == nil {
		return nil, false
	}
	type pv struct {
		p *ssa.Phi
		v Value
	}
	var out []pv
	for _, in := range tj.Instrs {
		p, ok := in.(*ssa.Phi)
		if !ok {
			break
		}
		var vt, vf Value
		for i, pr := range tj.Preds {
			if pr == tp {
				vt = e.get(fr, p.Edges[i])
			}
			if pr == fp {
				vf = e.get(fr, p.Edges[i])
			}
		}
		a, ok1 := vt.(*Term)
		b, ok2 := vf.(*Term)
		if !ok1 || !ok2 {
			return nil, false
		}
		out = append(out, pv{p, Ite(c, a, b)})
	}
	for _, o := range out {
		fr.env[o.p] = o.v
	}
	e.merged++
	return tj, true
}
