package main

import (
	"go/token"
	"sync"

	"golang.org/x/tools/go/ssa"
)

// If-conversion of side-effect-free regions.
//
// For an If block B whose immediate post-dominator is J, both arms are evaluated speculatively (only
// pure instructions are allowed; nested Ifs are converted recursively) and the phis of J become ite
// terms. Values computed in the arms are written into the frame environment, which is safe under SSA
// dominance (they can only be used in blocks they dominate, or through J's phis).

var ipdomCache sync.Map // *ssa.Function -> []*ssa.BasicBlock (indexed by block index; nil = exit)

func ipdoms(fn *ssa.Function) []*ssa.BasicBlock {
	if v, ok := ipdomCache.Load(fn); ok {
		return v.([]*ssa.BasicBlock)
	}
	n := len(fn.Blocks)
	// node n = virtual exit
	exit := n
	succs := make([][]int, n+1)
	for _, b := range fn.Blocks {
		if len(b.Succs) == 0 {
			succs[b.Index] = []int{exit}
		}
		for _, s := range b.Succs {
			succs[b.Index] = append(succs[b.Index], s.Index)
		}
	}
	// postorder on the reverse graph from exit
	preds := make([][]int, n+1) // reverse graph successors = original preds
	for i := 0; i <= n; i++ {
		for _, s := range succs[i] {
			preds[s] = append(preds[s], i)
		}
	}
	order := []int{}
	seen := make([]bool, n+1)
	var dfs func(int)
	dfs = func(u int) {
		seen[u] = true
		for _, v := range preds[u] {
			if !seen[v] {
				dfs(v)
			}
		}
		order = append(order, u)
	}
	dfs(exit)
	num := make([]int, n+1)
	for i := range num {
		num[i] = -1
	}
	for i, u := range order {
		num[u] = i
	}
	idom := make([]int, n+1)
	for i := range idom {
		idom[i] = -1
	}
	idom[exit] = exit
	intersect := func(a, b int) int {
		for a != b {
			for num[a] < num[b] {
				a = idom[a]
			}
			for num[b] < num[a] {
				b = idom[b]
			}
		}
		return a
	}
	changed := true
	for changed {
		changed = false
		for i := len(order) - 2; i >= 0; i-- {
			u := order[i]
			nw := -1
			for _, s := range succs[u] {
				if num[s] < 0 || idom[s] < 0 {
					continue
				}
				if nw < 0 {
					nw = s
				} else {
					nw = intersect(nw, s)
				}
			}
			if nw >= 0 && idom[u] != nw {
				idom[u] = nw
				changed = true
			}
		}
	}
	out := make([]*ssa.BasicBlock, n)
	for i := 0; i < n; i++ {
		if idom[i] >= 0 && idom[i] < n {
			out[i] = fn.Blocks[idom[i]]
		}
	}
	ipdomCache.Store(fn, out)
	return out
}

// pureInstr reports whether in can be evaluated without forking or side effects.
func (e *Engine) pureInstr(fr *frame, in ssa.Instruction) bool {
	switch x := in.(type) {
	case *ssa.BinOp:
		if x.Op == token.QUO || x.Op == token.REM {
			if c, ok := x.Y.(*ssa.Const); !ok || c.Value == nil {
				return false
			}
		}
		if x.Op == token.SHL || x.Op == token.SHR {
			if isSigned(x.Y.Type()) {
				return false
			}
		}
		if _, ok := e.get(fr, x.X).(*Term); !ok {
			return false
		}
		return true
	case *ssa.UnOp:
		if x.Op == token.MUL {
			p, ok := e.get(fr, x.X).(Ptr)
			return ok && p.loc != nil
		}
		return x.Op == token.NOT || x.Op == token.XOR || x.Op == token.SUB
	case *ssa.Convert:
		_, ok := e.get(fr, x.X).(*Term)
		return ok
	case *ssa.ChangeType, *ssa.Extract, *ssa.Field, *ssa.DebugRef:
		return true
	case *ssa.MakeInterface, *ssa.Slice:
		return onlyFeedsNoop(x.(ssa.Value), 0)
	case *ssa.Alloc:
		return onlyFeedsNoop(x, 0)
	case *ssa.FieldAddr:
		p, ok := e.get(fr, x.X).(Ptr)
		return ok && p.loc != nil && !e.watchedField(x)
	case *ssa.IndexAddr:
		idx, ok := e.get(fr, x.Index).(*Term)
		if !ok || idx.Op != "c" {
			return false
		}
		switch b := e.get(fr, x.X).(type) {
		case SliceV:
			return b.len.Op == "c" && idx.C < b.len.C && (b.sa != nil || b.off.Op == "c")
		case Ptr:
			switch l := b.loc.(type) {
			case *SArrLoc:
				return idx.C < uint64(l.n)
			case *ArrayLoc:
				return idx.C < uint64(len(l.e))
			}
		}
		return false
	case *ssa.Call:
		// len/cap builtins are pure
		if b, ok := x.Call.Value.(*ssa.Builtin); ok && (b.Name() == "len" || b.Name() == "cap") {
			return true
		}
		if f := x.Call.StaticCallee(); f != nil && noopCalls[f.String()] {
			// arguments of a variadic logging call may allocate (MakeInterface/Alloc/Store): those are
			// handled by treating the whole call as a no-op only when the arm contains nothing else impure
			return true
		}
		return false
	}
	return false
}

var noopCalls = map[string]bool{
	"github.com/mit-pdos/go-journal/util.DPrintf": true,
	"log.Printf": true,
}

type phiVals map[*ssa.Phi]Value

// edgeVals computes the phi values of blk when entered from pred.
func (e *Engine) edgeVals(fr *frame, blk, pred *ssa.BasicBlock) phiVals {
	out := phiVals{}
	for _, in := range blk.Instrs {
		p, ok := in.(*ssa.Phi)
		if !ok {
			break
		}
		for i, pr := range blk.Preds {
			if pr == pred {
				out[p] = e.get(fr, p.Edges[i])
				break
			}
		}
	}
	return out
}

// runArm evaluates a pure arm starting at blk (entered from prev) until it arrives at target; it
// returns the values target's phis receive from this arm.
func (e *Engine) runArm(fr *frame, blk, prev, target *ssa.BasicBlock, depth int, budget *int) (phiVals, bool) {
	var pending phiVals // phi values for blk computed by a nested merge
	for {
		*budget--
		if *budget < 0 {
			return nil, false
		}
		if blk == target {
			if pending != nil {
				return pending, true
			}
			return e.edgeVals(fr, blk, prev), true
		}
		// enter blk: assign its phis
		if pending != nil {
			for p, v := range pending {
				fr.env[p] = v
			}
			pending = nil
		} else {
			for p, v := range e.edgeVals(fr, blk, prev) {
				fr.env[p] = v
			}
		}
		var next *ssa.BasicBlock
		for _, in := range blk.Instrs {
			switch x := in.(type) {
			case *ssa.Phi:
				continue
			case *ssa.Jump:
				next = blk.Succs[0]
			case *ssa.If:
				c := e.get(fr, x.Cond).(*Term)
				if c.IsTrue() {
					next = blk.Succs[0]
				} else if c.IsFalse() {
					next = blk.Succs[1]
				} else {
					if depth > 8 {
						return nil, false
					}
					j, vals, ok := e.mergeArms(fr, blk, c, depth+1, budget)
					if !ok {
						return nil, false
					}
					pending = vals
					prev, blk = nil, j
					next = nil
					goto cont
				}
			case *ssa.Store:
				a, ok := x.Addr.(*ssa.IndexAddr)
				if !ok {
					return nil, false
				}
				al, ok := a.X.(*ssa.Alloc)
				if !ok || !onlyFeedsNoop(al, 0) {
					return nil, false
				}
				// dropped: the destination only feeds a no-op logging call
			case ssa.Value:
				if !e.pureInstr(fr, in) {
					return nil, false
				}
				if c, ok := in.(*ssa.Call); ok {
					if f := c.Call.StaticCallee(); f != nil && noopCalls[f.String()] {
						fr.env[x] = nil
						continue
					}
				}
				fr.env[x] = e.eval(fr, x)
			default:
				return nil, false
			}
			if next != nil {
				break
			}
		}
		if next == nil {
			return nil, false
		}
		if next.Dominates(blk) {
			// loop back-edge: header phis are redefined per iteration, speculation would clobber them
			return nil, false
		}
		prev, blk = blk, next
	cont:
	}
}

// mergeArms if-converts the region between ifBlk and its immediate post-dominator.
func (e *Engine) mergeArms(fr *frame, ifBlk *ssa.BasicBlock, c *Term, depth int, budget *int) (*ssa.BasicBlock, phiVals, bool) {
	target := ipdoms(fr.fn)[ifBlk.Index]
	if target == nil {
		return nil, nil, false
	}
	vt, ok := e.runArm(fr, ifBlk.Succs[0], ifBlk, target, depth, budget)
	if !ok {
		return nil, nil, false
	}
	vf, ok := e.runArm(fr, ifBlk.Succs[1], ifBlk, target, depth, budget)
	if !ok {
		return nil, nil, false
	}
	out := phiVals{}
	for p, a := range vt {
		b, ok := vf[p]
		if !ok {
			return nil, nil, false
		}
		ta, ok1 := a.(*Term)
		tb, ok2 := b.(*Term)
		if !ok1 || !ok2 {
			if !ok1 && !ok2 && sameValue(a, b) {
				out[p] = a
				continue
			}
			return nil, nil, false
		}
		out[p] = Ite(c, ta, tb)
	}
	return target, out, true
}

func sameValue(a, b Value) bool {
	switch x := a.(type) {
	case Ptr:
		y, ok := b.(Ptr)
		return ok && x.loc == y.loc
	}
	return false
}

// mergeIf tries to if-convert the region rooted at ifBlk. On success the phis of the join block are
// assigned and the join block is returned.
func (e *Engine) mergeIf(fr *frame, ifBlk *ssa.BasicBlock, c *Term, depth int) (*ssa.BasicBlock, bool) {
	budget := 400
	j, vals, ok := e.mergeArms(fr, ifBlk, c, depth, &budget)
	if !ok {
		return nil, false
	}
	for p, v := range vals {
		fr.env[p] = v
	}
	e.merged++
	return j, true
}

// onlyFeedsNoop reports whether every (transitive) use of v ends in an argument of a no-op call:
// the variadic argument array of a logging call has the shape
//   a = Alloc [n]interface{}; p = IndexAddr a i; Store p (MakeInterface x); s = Slice a; Call DPrintf(.., s)
func onlyFeedsNoop(v ssa.Value, depth int) bool {
	if depth > 4 {
		return false
	}
	refs := v.Referrers()
	if refs == nil || len(*refs) == 0 {
		return false
	}
	_, isAlloc := v.(*ssa.Alloc)
	_, isIdx := v.(*ssa.IndexAddr)
	for _, r := range *refs {
		switch u := r.(type) {
		case *ssa.Call:
			f := u.Call.StaticCallee()
			if f == nil || !noopCalls[f.String()] {
				return false
			}
		case *ssa.IndexAddr:
			if !isAlloc || u.X != v || !onlyFeedsNoop(u, depth+1) {
				return false
			}
		case *ssa.Slice:
			if !isAlloc || !onlyFeedsNoop(u, depth+1) {
				return false
			}
		case *ssa.Store:
			if u.Addr == v {
				// a store into an element of the argument array
				if !isIdx {
					return false
				}
			} else if u.Val == v {
				a, ok := u.Addr.(*ssa.IndexAddr)
				if !ok {
					return false
				}
				al, ok := a.X.(*ssa.Alloc)
				if !ok || !onlyFeedsNoop(al, depth+1) {
					return false
				}
			}
		case *ssa.MakeInterface:
			if !onlyFeedsNoop(u, depth+1) {
				return false
			}
		case *ssa.DebugRef:
		default:
			return false
		}
	}
	return true
}
