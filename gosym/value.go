package main

import (
	"fmt"
	"go/types"
	"sort"

	"golang.org/x/tools/go/ssa"
)

type Value interface{}

// ---- scalar arrays (bytes / words) with concrete overlay
type SArr struct {
	base *Term
	ov   map[uint64]*Term
	ew   int
}

func NewSArr(ew int, base *Term) *SArr { return &SArr{base: base, ov: map[uint64]*Term{}, ew: ew} }
func ZeroSArr(ew int) *SArr            { return NewSArr(ew, ConstArr(ew, Const(ew, 0))) }

func (a *SArr) Flush() *Term {
	if len(a.ov) == 0 {
		return a.base
	}
	ks := make([]uint64, 0, len(a.ov))
	for k := range a.ov {
		ks = append(ks, k)
	}
	sort.Slice(ks, func(i, j int) bool { return ks[i] < ks[j] })
	t := a.base
	if len(ks) >= 4096 && ks[0] == 0 && ks[4095] == 4095 {
		// a whole block was written element-wise: the old contents below 4096 are dead. Start from a
		// constant array of the most frequent constant value (indices >= 4096 are never read).
		cnt := map[uint64]int{}
		best, bestn := uint64(0), 0
		for _, k := range ks[:4096] {
			if v := a.ov[k]; v.Op == "c" {
				cnt[v.C]++
				if cnt[v.C] > bestn {
					best, bestn = v.C, cnt[v.C]
				}
			}
		}
		if bestn > 2048 {
			t = ConstArr(a.ew, Const(a.ew, best))
			for _, k := range ks {
				if v := a.ov[k]; !(v.Op == "c" && v.C == best) || k >= 4096 {
					t = Store(t, Const(64, k), v)
				}
			}
			a.base = t
			a.ov = map[uint64]*Term{}
			return t
		}
	}
	// runs of at least 16 consecutive indices holding the same value become one range store
	for i := 0; i < len(ks); {
		j := i
		for j+1 < len(ks) && ks[j+1] == ks[j]+1 && a.ov[ks[j+1]] == a.ov[ks[i]] {
			j++
		}
		if j-i+1 >= 16 {
			t = RangeStore(t, ks[i], ks[j], a.ov[ks[i]])
		} else {
			for k := i; k <= j; k++ {
				t = Store(t, Const(64, ks[k]), a.ov[ks[k]])
			}
		}
		i = j + 1
	}
	a.base = t
	a.ov = map[uint64]*Term{}
	return t
}
func (a *SArr) Load(i *Term) *Term {
	if i.Op == "c" {
		if v, ok := a.ov[i.C]; ok {
			return v
		}
		return Select(a.base, i)
	}
	return Select(a.Flush(), i)
}
func (a *SArr) Store(i, v *Term) {
	if i.Op == "c" {
		a.ov[i.C] = v
		return
	}
	a.base = Store(a.Flush(), i, v)
}
func (a *SArr) Clone() *SArr {
	n := &SArr{base: a.base, ov: map[uint64]*Term{}, ew: a.ew}
	for k, v := range a.ov {
		n.ov[k] = v
	}
	return n
}

// ---- locations
type Loc interface {
	Load() Value
	Store(Value)
}
type Cell struct{ v Value }

func (c *Cell) Load() Value   { return c.v }
func (c *Cell) Store(v Value) { c.v = v }

type StructLoc struct{ f []Loc }

func (s *StructLoc) Load() Value {
	out := make(StructV, len(s.f))
	for i, l := range s.f {
		out[i] = l.Load()
	}
	return out
}
func (s *StructLoc) Store(v Value) {
	sv := v.(StructV)
	for i, l := range s.f {
		l.Store(sv[i])
	}
}

type ArrayLoc struct{ e []Loc } // array of non-scalar elems
func (s *ArrayLoc) Load() Value {
	out := make(ArrayV, len(s.e))
	for i, l := range s.e {
		out[i] = l.Load()
	}
	return out
}
func (s *ArrayLoc) Store(v Value) {
	av := v.(ArrayV)
	for i, l := range s.e {
		l.Store(av[i])
	}
}

type ElemLoc struct {
	a   *SArr
	idx *Term
}

func (e *ElemLoc) Load() Value   { return e.a.Load(e.idx) }
func (e *ElemLoc) Store(v Value) { e.a.Store(e.idx, v.(*Term)) }

// scalar array value location ([N]byte etc.)
type SArrLoc struct {
	a *SArr
	n int64
}

func (s *SArrLoc) Load() Value   { return SArrV{a: s.a.Clone(), n: s.n} }
func (s *SArrLoc) Store(v Value) { c := v.(SArrV).a.Clone(); s.a.base, s.a.ov = c.base, c.ov }

// ---- values
type StructV []Value
type ArrayV []Value
type SArrV struct {
	a *SArr
	n int64
}
type TupleV []Value
type Ptr struct{ loc Loc } // nil loc = nil pointer
type SliceV struct {
	sa            *SArr // scalar-backed
	cells         []Loc // cell-backed (off/len/cap concrete, relative to cells)
	off, len, cap *Term
	isNil         bool
}
type StrV struct {
	a   *SArr
	off *Term
	len *Term
}
type IfaceV struct {
	t types.Type
	v Value
}
type ClosureV struct {
	fn    *ssa.Function
	env   []Value
	bound []Value // pre-bound leading arguments (go statements with arguments)
}
type MapV struct{ m *MapObj }
type MapObj struct {
	keys []Value
	vals []Value
}

func isScalar(t types.Type) (int, bool) {
	switch b := t.Underlying().(type) {
	case *types.Basic:
		switch b.Kind() {
		case types.Bool, types.UntypedBool:
			return 0, true
		case types.Int8, types.Uint8:
			return 8, true
		case types.Int16, types.Uint16:
			return 16, true
		case types.Int32, types.Uint32:
			return 32, true
		case types.Int, types.Uint, types.Int64, types.Uint64, types.Uintptr, types.UntypedInt, types.UntypedRune:
			return 64, true
		}
	}
	return 0, false
}

func isSigned(t types.Type) bool {
	if b, ok := t.Underlying().(*types.Basic); ok {
		return b.Info()&types.IsUnsigned == 0 && b.Info()&types.IsInteger != 0
	}
	return false
}

// zero value of a type
func zeroValue(t types.Type) Value {
	switch u := t.Underlying().(type) {
	case *types.Basic:
		if u.Kind() == types.String || u.Kind() == types.UntypedString {
			return StrV{a: ZeroSArr(8), off: Const(64, 0), len: Const(64, 0)}
		}
		if w, ok := isScalar(t); ok {
			if w == 0 {
				return BoolC(false)
			}
			return Const(w, 0)
		}
		if u.Kind() == types.UnsafePointer {
			return Ptr{}
		}
		if u.Kind() == types.Float64 || u.Kind() == types.Float32 {
			return Const(64, 0)
		}
	case *types.Pointer:
		return Ptr{}
	case *types.Struct:
		out := make(StructV, u.NumFields())
		for i := range out {
			out[i] = zeroValue(u.Field(i).Type())
		}
		return out
	case *types.Array:
		if w, ok := isScalar(u.Elem()); ok && w > 0 {
			return SArrV{a: ZeroSArr(w), n: u.Len()}
		}
		out := make(ArrayV, u.Len())
		for i := range out {
			out[i] = zeroValue(u.Elem())
		}
		return out
	case *types.Slice:
		return SliceV{isNil: true, off: Const(64, 0), len: Const(64, 0), cap: Const(64, 0)}
	case *types.Map:
		return MapV{}
	case *types.Interface:
		return IfaceV{}
	case *types.Signature:
		return (*ClosureV)(nil)
	case *types.Chan:
		return nil
	case *types.Tuple:
		out := make(TupleV, u.Len())
		for i := range out {
			out[i] = zeroValue(u.At(i).Type())
		}
		return out
	}
	panic(fmt.Sprintf("zeroValue: %v", t))
}

// newLoc allocates addressable storage for type t holding its zero value.
func newLoc(t types.Type) Loc {
	switch u := t.Underlying().(type) {
	case *types.Struct:
		s := &StructLoc{f: make([]Loc, u.NumFields())}
		for i := range s.f {
			s.f[i] = newLoc(u.Field(i).Type())
		}
		return s
	case *types.Array:
		if w, ok := isScalar(u.Elem()); ok && w > 0 {
			return &SArrLoc{a: ZeroSArr(w), n: u.Len()}
		}
		a := &ArrayLoc{e: make([]Loc, u.Len())}
		for i := range a.e {
			a.e[i] = newLoc(u.Elem())
		}
		return a
	}
	return &Cell{v: zeroValue(t)}
}
