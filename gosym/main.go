package main

import (
	"encoding/json"
	"flag"
	"fmt"
	"os"
	"path/filepath"
	"runtime"
	"runtime/debug"
	"sort"
	"strings"
	"time"

	"golang.org/x/tools/go/packages"
	"golang.org/x/tools/go/ssa"
	"golang.org/x/tools/go/ssa/ssautil"
)

// PlanItem is one harness run requested by the driver.
type PlanItem struct {
	Fn        string            `json:"fn"` // "<pkgpath>.<Func>"
	Params    map[string]uint64 `json:"params"`
	Unwind    int               `json:"unwind"`
	MaxSteps  int               `json:"max_steps"`
	MaxPaths  int               `json:"max_paths"`
	Lmax      int               `json:"lmax"`
	TimeoutMs int               `json:"timeout_ms"`
	BudgetS   int               `json:"budget_s"`
	Covers    []string          `json:"covers"` // cover points that must be reached
	Tag       string            `json:"tag"`
}

type Plan struct {
	Repo     string     `json:"repo"`
	Harness  string     `json:"harness_dir"`
	Extra    []string   `json:"extra_harness_dirs"`
	Modfile  string     `json:"modfile"`
	Workers  int        `json:"workers"`
	Solver   string     `json:"solver"`
	Known    []string   `json:"known"`
	Items    []PlanItem `json:"items"`
	Patterns []string   `json:"patterns"`
}

type ItemResult struct {
	Fn         string         `json:"fn"`
	Tag        string         `json:"tag"`
	Params     map[string]uint64 `json:"params"`
	Paths      int            `json:"paths"`
	Outcomes   map[string]int `json:"outcomes"`
	Sites      map[string]int `json:"sites"`
	Covers     map[string]int `json:"covers"`
	MissingCov []string       `json:"missing_covers"`
	Asserts    map[string]int `json:"asserts"`
	KnownHit   map[string]int `json:"known_hit"`
	Violations []Violation    `json:"violations"`
	Witnesses  []Violation    `json:"witnesses"`
	Funcs      map[string]int `json:"funcs"`
	Queries    int            `json:"queries"`
	Unknown    int            `json:"unknown"`
	SolverS    float64        `json:"solver_s"`
	MaxQueryS  float64        `json:"max_query_s"`
	WallS      float64        `json:"wall_s"`
	Merged     int            `json:"merged"`
	Truncated  bool           `json:"truncated"`
	Samples    []string       `json:"samples"`
	Status     string         `json:"status"` // pass | violation | inconclusive
	Reason     string         `json:"reason,omitempty"`
	Error      string         `json:"error,omitempty"`
}

type Output struct {
	LoadS   float64      `json:"load_s"`
	Results []ItemResult `json:"results"`
	Terms   int          `json:"terms"`
}

func buildOverlay(repo, hdir string) (map[string][]byte, []string) {
	ov := map[string][]byte{}
	var extra []string
	filepath.Walk(hdir, func(p string, info os.FileInfo, err error) error {
		if err != nil || info.IsDir() || !strings.HasSuffix(p, ".go") {
			return nil
		}
		rel, _ := filepath.Rel(hdir, p)
		dir := filepath.Dir(rel)
		b, err := os.ReadFile(p)
		if err != nil {
			panic(err)
		}
		if strings.HasPrefix(dir, "_gojournal/") {
			// in-package harness of the dependency: overlaid onto the verbatim copy selected by -modfile
			virt := filepath.Join(filepath.Dir(hdir), "third_party", "go-journal", strings.TrimPrefix(dir, "_gojournal/"), "zz_verif_"+filepath.Base(p))
			if tp := os.Getenv("GOSYM_THIRD_PARTY"); tp != "" {
				virt = filepath.Join(tp, "go-journal", strings.TrimPrefix(dir, "_gojournal/"), "zz_verif_"+filepath.Base(p))
			}
			ov[virt] = b
			return nil
		}
		if strings.HasPrefix(dir, "_") {
			return nil
		}
		virt := filepath.Join(repo, dir, "zz_verif_"+filepath.Base(p))
		ov[virt] = b
		if dir == "verifrt" {
			extra = append(extra, "./verifrt")
		}
		return nil
	})
	return ov, extra
}

func main() {
	planFile := flag.String("plan", "", "plan JSON")
	outFile := flag.String("out", "", "result JSON")
	verbose := flag.Bool("v", false, "")
	genx := flag.String("genxdr", "", "write the generated XDR harness to this file and exit")
	genrepo := flag.String("repo", "/repo", "")
	smtlog := flag.String("smtlog", "", "")
	flag.Parse()
	_ = smtlog
	if *genx != "" {
		if err := genXdr(*genrepo, *genx); err != nil {
			fmt.Fprintln(os.Stderr, "genxdr:", err)
			os.Exit(3)
		}
		return
	}
	debug.SetGCPercent(200)
	var plan Plan
	b, err := os.ReadFile(*planFile)
	if err != nil {
		fmt.Fprintln(os.Stderr, "cannot read plan:", err)
		os.Exit(3)
	}
	if err := json.Unmarshal(b, &plan); err != nil {
		fmt.Fprintln(os.Stderr, "bad plan:", err)
		os.Exit(3)
	}
	if plan.Repo == "" {
		plan.Repo = "/repo"
	}
	if plan.Workers <= 0 {
		plan.Workers = runtime.NumCPU()
	}
	if plan.Solver == "" {
		plan.Solver = "z3-new"
	}
	t0 := time.Now()
	ov, _ := buildOverlay(plan.Repo, plan.Harness)
	for _, d := range plan.Extra {
		o2, _ := buildOverlay(plan.Repo, d)
		for k, v := range o2 {
			ov[k] = v
		}
	}
	flags := []string{"-tags=verif"}
	if plan.Modfile != "" {
		flags = append(flags, "-modfile="+plan.Modfile)
	}
	cfg := &packages.Config{Mode: packages.LoadAllSyntax, Dir: plan.Repo, Overlay: ov, BuildFlags: flags,
		Env: append(os.Environ(), "GOFLAGS=-mod=mod", "GOPROXY=off", "GOSUMDB=off", "GOTOOLCHAIN=local")}
	pats := plan.Patterns
	if len(pats) == 0 {
		pats = []string{"./...", "./verifrt"}
	}
	if plan.Modfile != "" {
		pats = append(pats, "github.com/mit-pdos/go-journal/...")
	}
	pkgs, err := packages.Load(cfg, pats...)
	if err != nil {
		fmt.Fprintln(os.Stderr, "load:", err)
		os.Exit(3)
	}
	if packages.PrintErrors(pkgs) > 0 {
		fmt.Fprintln(os.Stderr, "BUILD-ERROR: /repo (with harness overlay) does not type-check")
		os.Exit(3)
	}
	prog, _ := ssautil.AllPackages(pkgs, ssa.InstantiateGenerics)
	prog.Build()
	out := Output{LoadS: time.Since(t0).Seconds()}
	if *verbose {
		fmt.Fprintf(os.Stderr, "loaded in %.1fs\n", out.LoadS)
	}
	known := map[string]bool{}
	for _, k := range plan.Known {
		known[k] = true
	}
	for _, it := range plan.Items {
		r := runItem(prog, it, &plan, known, *verbose)
		out.Results = append(out.Results, r)
		if *verbose {
			fmt.Fprintf(os.Stderr, "%-60s %-12s paths=%d q=%d solver=%.1fs wall=%.1fs %s\n", it.Fn+" "+it.Tag, r.Status, r.Paths, r.Queries, r.SolverS, r.WallS, fmt.Sprint(r.Outcomes, r.Covers, " ", r.Reason))
			for _, k := range sortedKeys(r.Sites) {
				fmt.Fprintf(os.Stderr, "      %s x%d\n", k, r.Sites[k])
			}
			for _, v := range r.Violations {
				fmt.Fprintf(os.Stderr, "      VIOL %s %s @%s known=%s\n", v.Kind, v.Label, v.Site, v.Known)
			}
		}
		out.Terms = TermCount()
		resetTerms()
		runtime.GC()
	}
	jb, _ := json.MarshalIndent(out, "", " ")
	if *outFile != "" {
		os.WriteFile(*outFile, jb, 0644)
	} else {
		os.Stdout.Write(jb)
	}
}

func findFn(prog *ssa.Program, name string) *ssa.Function {
	i := strings.LastIndex(name, ".")
	pkgPath, fname := name[:i], name[i+1:]
	for _, p := range prog.AllPackages() {
		if p.Pkg.Path() == pkgPath {
			return p.Func(fname)
		}
	}
	return nil
}

func runItem(prog *ssa.Program, it PlanItem, plan *Plan, known map[string]bool, verbose bool) (r ItemResult) {
	r = ItemResult{Fn: it.Fn, Tag: it.Tag, Params: it.Params}
	fn := findFn(prog, it.Fn)
	if fn == nil {
		r.Status, r.Error = "inconclusive", "no such harness function"
		return
	}
	cfg := &Config{Unwind: it.Unwind, MaxSteps: it.MaxSteps, MaxPaths: it.MaxPaths, Lmax: it.Lmax, Workers: plan.Workers,
		SolverBin: plan.Solver, TimeoutMs: it.TimeoutMs, KnownIDs: known, Params: map[string]uint64{}}
	if cfg.Unwind == 0 {
		cfg.Unwind = 5000
	}
	if cfg.MaxSteps == 0 {
		cfg.MaxSteps = 20000000
	}
	if cfg.Lmax == 0 {
		cfg.Lmax = 4
	}
	if cfg.TimeoutMs == 0 {
		cfg.TimeoutMs = 60000
	}
	cfg.Params["copymax"] = 64
	for k, v := range it.Params {
		cfg.Params[k] = v
	}
	if it.BudgetS > 0 {
		cfg.Deadline = time.Now().Add(time.Duration(it.BudgetS) * time.Second)
	}
	defer func() {
		if x := recover(); x != nil {
			r.Status = "inconclusive"
			r.Error = fmt.Sprint(x)
			if verbose {
				fmt.Fprintf(os.Stderr, "ENGINE FAILURE: %v\n%s\n", x, debug.Stack())
			}
		}
	}()
	noSlice = envNoSlice || cfg.Params["noslice"] == 1
	res := RunHarness(prog, fn, it.Fn, cfg)
	r.Paths, r.Outcomes, r.Sites, r.Covers, r.Asserts, r.KnownHit = res.Paths, res.Outcomes, res.Sites, res.Covers, res.Asserts, res.KnownHit
	r.Violations, r.Funcs, r.Queries, r.Unknown = res.Viol, res.Funcs, res.Queries, res.Unknown
	r.Witnesses = res.Witnesses
	r.SolverS, r.MaxQueryS, r.WallS, r.Merged, r.Truncated, r.Samples = res.SolverTime.Seconds(), res.MaxQuery.Seconds(), res.Wall.Seconds(), res.Merged, res.Truncated, res.Samples
	for _, c := range it.Covers {
		if res.Covers[c] == 0 {
			r.MissingCov = append(r.MissingCov, c)
		}
	}
	sort.Strings(r.MissingCov)
	switch {
	case len(res.Viol) > 0:
		r.Status = "violation"
	case res.Outcomes["unknown"] > 0:
		r.Status, r.Reason = "inconclusive", "solver returned unknown/timeout"
	case res.Outcomes["unwind"] > 0:
		r.Status, r.Reason = "inconclusive", "unwinding bound hit (bound too small for this harness)"
	case res.Outcomes["unsupported"] > 0:
		r.Status, r.Reason = "inconclusive", "unsupported construct reached"
	case res.Truncated:
		r.Status, r.Reason = "inconclusive", "path/time budget exhausted before all paths were explored"
	case len(r.MissingCov) > 0:
		r.Status, r.Reason = "inconclusive", "vacuous: cover points not reached: "+strings.Join(r.MissingCov, ",")
	default:
		r.Status = "pass"
	}
	return
}
