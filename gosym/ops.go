package main

import (
	"strings"
	"os"
	"fmt"
	"go/token"
	"go/types"

	"golang.org/x/tools/go/ssa"
)

const maxAlloc = 1 << 26 // bytes a single make/append may request before it counts as memory exhaustion

func (e *Engine) checkIdx(idx, n *Term, what string, fr *frame, pos token.Pos) {
	ok := Cmp("bvult", idx, n)
	if !e.decide(ok) {
		e.end("panic", fmt.Sprintf("%s out of range at %s", what, e.pos2(pos, fr.fn)))
	}
}

func (e *Engine) eval(fr *frame, v ssa.Value) Value {
	switch x := v.(type) {
	case *ssa.Alloc:
		return Ptr{loc: newLoc(x.Type().(*types.Pointer).Elem())}
	case *ssa.BinOp:
		return e.binop(fr, x)
	case *ssa.UnOp:
		a := e.get(fr, x.X)
		switch x.Op {
		case token.MUL:
			p := a.(Ptr)
			if p.loc == nil {
				e.end("panic", "nil dereference at "+e.pos2(x.Pos(), fr.fn))
			}
			e.noteAccess(p, false)
			return p.loc.Load()
		case token.NOT:
			return Not(a.(*Term))
		case token.XOR:
			return BvNot(a.(*Term))
		case token.SUB:
			return BvNeg(a.(*Term))
		}
	case *ssa.Call:
		fv, args := e.prepCall(fr, &x.Call)
		return e.invoke(fr, fv, args, &x.Call)
	case *ssa.ChangeType:
		return e.get(fr, x.X)
	case *ssa.ChangeInterface:
		return e.get(fr, x.X)
	case *ssa.Convert:
		return e.convert(e.get(fr, x.X), x.X.Type(), x.Type())
	case *ssa.MakeInterface:
		return IfaceV{t: x.X.Type(), v: e.get(fr, x.X)}
	case *ssa.MakeClosure:
		c := &ClosureV{fn: x.Fn.(*ssa.Function)}
		for _, b := range x.Bindings {
			c.env = append(c.env, e.get(fr, b))
		}
		return c
	case *ssa.MakeMap:
		return MapV{m: &MapObj{}}
	case *ssa.MakeSlice:
		n := e.get(fr, x.Len).(*Term)
		cp := e.get(fr, x.Cap).(*Term)
		signed := isSigned(x.Len.Type())
		if signed {
			n, cp = SExt(64, n), SExt(64, cp)
		} else {
			n, cp = ZExt(64, n), ZExt(64, cp)
		}
		el := x.Type().Underlying().(*types.Slice).Elem()
		if w, ok := isScalar(el); ok && w > 0 {
			// negative / absurd lengths panic in the runtime; huge ones exhaust memory
			lim := uint64(maxAlloc) / uint64(w/8)
			if !e.decide(Cmp("bvule", n, c64(lim))) {
				if e.decide(Cmp("bvule", n, c64(1<<47))) {
					e.end("oom", fmt.Sprintf("make: length above %d elements at %s", lim, e.pos2(x.Pos(), fr.fn)))
				}
				e.end("panic", "makeslice: len out of range at "+e.pos2(x.Pos(), fr.fn))
			}
			return SliceV{sa: ZeroSArr(w), off: c64(0), len: n, cap: cp}
		}
		if n.Op != "c" {
			n = e.uniqueValue(n)
			if n.Op != "c" {
				e.end("unsupported", "make of non-scalar slice with symbolic length at "+e.cur)
			}
		}
		if cp.Op != "c" {
			cp = n
		}
		cells := make([]Loc, cp.C)
		for i := range cells {
			cells[i] = newLoc(el)
		}
		return SliceV{cells: cells, off: c64(0), len: n, cap: cp}
	case *ssa.FieldAddr:
		p := e.get(fr, x.X).(Ptr)
		if p.loc == nil {
			e.end("panic", "nil dereference (field) at "+e.pos2(x.Pos(), fr.fn))
		}
		sl := p.loc.(*StructLoc)
		e.noteField(sl, x, fr)
		return Ptr{loc: sl.f[x.Field]}
	case *ssa.Field:
		return e.get(fr, x.X).(StructV)[x.Field]
	case *ssa.IndexAddr:
		idx := e.idx64(fr, x.Index)
		switch b := e.get(fr, x.X).(type) {
		case SliceV:
			e.checkIdx(idx, b.len, "index", fr, x.Pos())
			if b.sa != nil {
				idx = e.uniqueIdx(idx)
				return Ptr{loc: &ElemLoc{a: b.sa, idx: Bin("bvadd", b.off, idx)}}
			}
			k := e.concretize(idx, b.len)
			return Ptr{loc: b.cells[b.off.C+k]}
		case Ptr: // pointer to array
			if b.loc == nil {
				e.end("panic", "nil dereference (index) at "+e.pos2(x.Pos(), fr.fn))
			}
			switch l := b.loc.(type) {
			case *SArrLoc:
				e.checkIdx(idx, c64(uint64(l.n)), "index", fr, x.Pos())
				return Ptr{loc: &ElemLoc{a: l.a, idx: idx}}
			case *ArrayLoc:
				e.checkIdx(idx, c64(uint64(len(l.e))), "index", fr, x.Pos())
				k := e.concretize(idx, c64(uint64(len(l.e))))
				return Ptr{loc: l.e[k]}
			}
		}
	case *ssa.Index:
		idx := e.idx64(fr, x.Index)
		switch b := e.get(fr, x.X).(type) {
		case SArrV:
			e.checkIdx(idx, c64(uint64(b.n)), "index", fr, x.Pos())
			return b.a.Load(idx)
		case ArrayV:
			e.checkIdx(idx, c64(uint64(len(b))), "index", fr, x.Pos())
			return b[e.concretize(idx, c64(uint64(len(b))))]
		case StrV:
			e.checkIdx(idx, b.len, "string index", fr, x.Pos())
			return b.a.Load(Bin("bvadd", b.off, idx))
		}
	case *ssa.Slice:
		return e.slice(fr, x)
	case *ssa.Extract:
		return e.get(fr, x.Tuple).(TupleV)[x.Index]
	case *ssa.Lookup:
		switch m := e.get(fr, x.X).(type) {
		case MapV:
			val, ok := e.mapLookup(m, e.get(fr, x.Index))
			if val == nil {
				val = zeroValue(x.X.Type().Underlying().(*types.Map).Elem())
			}
			if x.CommaOk {
				return TupleV{val, BoolC(ok)}
			}
			return val
		case StrV:
			idx := e.idx64(fr, x.Index)
			e.checkIdx(idx, m.len, "string index", fr, x.Pos())
			return m.a.Load(Bin("bvadd", m.off, idx))
		}
	case *ssa.Range:
		switch m := e.get(fr, x.X).(type) {
		case MapV:
			it := &mapIter{m: m.m}
			if m.m != nil {
				// snapshot (Go semantics allow either for entries added during iteration)
				it.keys = append([]Value{}, m.m.keys...)
			}
			return it
		case StrV:
			e.end("unsupported", "range over string at "+e.cur)
		}
	case *ssa.Next:
		it := e.get(fr, x.Iter).(*mapIter)
		for it.m != nil && it.i < len(it.keys) {
			k := it.keys[it.i]
			it.i++
			// skip entries deleted meanwhile
			for j, kk := range it.m.keys {
				if sameKey(kk, k) {
					return TupleV{BoolC(true), k, it.m.vals[j]}
				}
			}
		}
		return TupleV{BoolC(false), nil, nil}
	case *ssa.TypeAssert:
		iv := e.get(fr, x.X).(IfaceV)
		ok := iv.t != nil && (types.Identical(iv.t, x.AssertedType) ||
			(types.IsInterface(x.AssertedType) && types.Implements(iv.t, x.AssertedType.Underlying().(*types.Interface))))
		var res Value
		if ok {
			if types.IsInterface(x.AssertedType) {
				res = iv
			} else {
				res = iv.v
			}
		} else {
			if !x.CommaOk {
				e.end("panic", "type assertion failed at "+e.pos2(x.Pos(), fr.fn))
			}
			res = zeroValue(x.AssertedType)
		}
		if x.CommaOk {
			return TupleV{res, BoolC(ok)}
		}
		return res
	case *ssa.SliceToArrayPointer:
		e.end("unsupported", "slice to array pointer")
	}
	panic(fmt.Sprintf("eval %T %v in %s", v, v, fr.fn))
}

func sameKey(a, b Value) bool {
	switch x := a.(type) {
	case *Term:
		y, ok := b.(*Term)
		return ok && x == y
	case StrV:
		y, ok := b.(StrV)
		return ok && x.a == y.a && x.off == y.off && x.len == y.len
	}
	return false
}

// idx64 converts an index operand to 64 bits respecting signedness (negative → huge → out of range).
func (e *Engine) idx64(fr *frame, v ssa.Value) *Term {
	t := e.get(fr, v).(*Term)
	if t.W() == 64 {
		return t
	}
	if isSigned(v.Type()) {
		return SExt(64, t)
	}
	return ZExt(64, t)
}

type mapIter struct {
	m    *MapObj
	keys []Value
	i    int
}

// concretize case-splits a symbolic index below bound n.
func (e *Engine) concretize(idx, n *Term) uint64 {
	if idx.Op == "c" {
		return idx.C
	}
	u := e.uniqueValue(idx)
	if u.Op == "c" {
		return u.C
	}
	if n.Op != "c" {
		n = e.uniqueValue(n)
		if n.Op != "c" {
			e.end("unsupported", "concretize with symbolic bound at "+e.cur)
		}
	}
	for k := uint64(0); k+1 < n.C; k++ {
		if e.decide(Cmp("=", idx, c64(k))) {
			return k
		}
	}
	return n.C - 1
}

func (e *Engine) binop(fr *frame, x *ssa.BinOp) Value {
	a, b := e.get(fr, x.X), e.get(fr, x.Y)
	switch av := a.(type) {
	case *Term:
		bv := b.(*Term)
		signed := isSigned(x.X.Type())
		if av.S.W == 0 { // bool
			switch x.Op {
			case token.EQL:
				return Cmp("=", av, bv)
			case token.NEQ:
				return Not(Cmp("=", av, bv))
			}
		}
		switch x.Op {
		case token.ADD:
			return Bin("bvadd", av, bv)
		case token.SUB:
			return Bin("bvsub", av, bv)
		case token.MUL:
			return Bin("bvmul", av, bv)
		case token.QUO, token.REM:
			if !e.decide(Not(Cmp("=", bv, Const(bv.W(), 0)))) {
				e.end("panic", "integer divide by zero at "+e.pos2(x.Pos(), fr.fn))
			}
			op := map[bool]map[token.Token]string{false: {token.QUO: "bvudiv", token.REM: "bvurem"}, true: {token.QUO: "bvsdiv", token.REM: "bvsrem"}}[signed][x.Op]
			return Bin(op, av, bv)
		case token.AND:
			return Bin("bvand", av, bv)
		case token.OR:
			return Bin("bvor", av, bv)
		case token.XOR:
			return Bin("bvxor", av, bv)
		case token.AND_NOT:
			return Bin("bvand", av, BvNot(bv))
		case token.SHL, token.SHR:
			// shift count may have a different width; counts >= width give 0 (or sign fill)
			var sh *Term
			aw := av.W()
			if isSigned(x.Y.Type()) {
				// negative shift count panics
				if !e.decide(Not(Cmp("bvslt", bv, Const(bv.W(), 0)))) {
					e.end("panic", "negative shift amount at "+e.pos2(x.Pos(), fr.fn))
				}
			}
			if bv.W() < aw {
				sh = ZExt(aw, bv)
			} else if bv.W() > aw {
				big := Not(Cmp("bvult", bv, Const(bv.W(), uint64(aw))))
				sh = Ite(big, Const(aw, uint64(aw)), Extract(aw-1, 0, bv))
			} else {
				sh = bv
			}
			if x.Op == token.SHL {
				return Bin("bvshl", av, sh)
			}
			if signed {
				return Bin("bvashr", av, sh)
			}
			return Bin("bvlshr", av, sh)
		case token.EQL:
			return Cmp("=", av, bv)
		case token.NEQ:
			return Not(Cmp("=", av, bv))
		case token.LSS:
			return Cmp(map[bool]string{false: "bvult", true: "bvslt"}[signed], av, bv)
		case token.LEQ:
			return Cmp(map[bool]string{false: "bvule", true: "bvsle"}[signed], av, bv)
		case token.GTR:
			return Cmp(map[bool]string{false: "bvult", true: "bvslt"}[signed], bv, av)
		case token.GEQ:
			return Cmp(map[bool]string{false: "bvule", true: "bvsle"}[signed], bv, av)
		}
	case StrV:
		bs := b.(StrV)
		switch x.Op {
		case token.EQL:
			return e.strEq(av, bs)
		case token.NEQ:
			return Not(e.strEq(av, bs))
		case token.ADD:
			return e.strConcat(av, bs)
		}
	case SliceV: // comparison with nil
		if x.Op == token.EQL {
			return BoolC(av.isNil)
		}
		return BoolC(!av.isNil)
	case MapV:
		if x.Op == token.EQL {
			return BoolC(av.m == nil)
		}
		return BoolC(av.m != nil)
	case *ClosureV:
		if x.Op == token.EQL {
			return BoolC(av == nil)
		}
		return BoolC(av != nil)
	default:
		eq := e.valEq(a, b)
		if x.Op == token.EQL {
			return eq
		}
		if x.Op == token.NEQ {
			return Not(eq)
		}
	}
	panic(fmt.Sprintf("binop %v %T at %s", x.Op, a, e.pos2(x.Pos(), fr.fn)))
}

func (e *Engine) strConcat(a, b StrV) Value {
	if a.len.Op != "c" || b.len.Op != "c" {
		e.end("unsupported", "string concat of symbolic length at "+e.cur)
	}
	n := ZeroSArr(8)
	for i := uint64(0); i < a.len.C; i++ {
		n.Store(c64(i), a.a.Load(Bin("bvadd", a.off, c64(i))))
	}
	for i := uint64(0); i < b.len.C; i++ {
		n.Store(c64(a.len.C+i), b.a.Load(Bin("bvadd", b.off, c64(i))))
	}
	return StrV{a: n, off: c64(0), len: c64(a.len.C + b.len.C)}
}

// strEq compares strings. Lengths may be symbolic; contents are compared up to max(Lmax, concrete len).
// Harnesses guarantee (by Assume) that symbolic strings carry information only in their first Lmax bytes.
func (e *Engine) strEq(a, b StrV) *Term {
	// lengths that cannot be equal (by the bounds known on this path) settle it
	al, ah := e.bounds(a.len)
	bl, bh := e.bounds(b.len)
	if ah < bl || bh < al {
		return BoolC(false)
	}
	res := Cmp("=", a.len, b.len)
	n := uint64(e.cfg.Lmax)
	if a.len.Op == "c" {
		n = a.len.C
	} else if b.len.Op == "c" {
		n = b.len.C
	}
	for i := uint64(0); i < n; i++ {
		in := Cmp("bvult", c64(i), a.len)
		eq := Cmp("=", a.a.Load(Bin("bvadd", a.off, c64(i))), b.a.Load(Bin("bvadd", b.off, c64(i))))
		res = And(res, Or(Not(in), eq))
	}
	return res
}

func (e *Engine) convert(v Value, from, to types.Type) Value {
	if t, ok := v.(*Term); ok {
		tw, ok2 := isScalar(to)
		if ok2 && t.S.W > 0 {
			if tw < t.W() {
				return Extract(tw-1, 0, t)
			}
			if isSigned(from) {
				return SExt(tw, t)
			}
			return ZExt(tw, t)
		}
		if b, ok := to.Underlying().(*types.Basic); ok && b.Info()&types.IsFloat != 0 {
			return Const(64, 0)
		}
		if b, ok := to.Underlying().(*types.Basic); ok && b.Info()&types.IsString != 0 {
			// string(rune): only concrete ASCII supported
			if t.Op == "c" && t.C < 128 {
				return strConst(string(rune(t.C)))
			}
			e.end("unsupported", "string(int) conversion")
		}
	}
	switch x := v.(type) {
	case StrV: // string -> []byte
		if _, ok := to.Underlying().(*types.Slice); ok {
			return SliceV{sa: x.a.Clone(), off: x.off, len: x.len, cap: x.len}
		}
		if b, ok := to.Underlying().(*types.Basic); ok && b.Info()&types.IsString != 0 {
			return x
		}
	case SliceV: // []byte -> string
		if b, ok := to.Underlying().(*types.Basic); ok && b.Info()&types.IsString != 0 {
			if x.sa == nil {
				return StrV{a: ZeroSArr(8), off: c64(0), len: c64(0)}
			}
			return StrV{a: x.sa.Clone(), off: x.off, len: x.len}
		}
		if _, ok := to.Underlying().(*types.Slice); ok {
			return x
		}
	case Ptr:
		return x
	}
	panic(fmt.Sprintf("convert %T %v -> %v", v, from, to))
}

func (e *Engine) slice(fr *frame, x *ssa.Slice) Value {
	base := e.get(fr, x.X)
	var lo, hi *Term
	if x.Low != nil {
		lo = e.idx64(fr, x.Low)
	} else {
		lo = c64(0)
	}
	bad := func(c *Term) {
		if !e.decide(c) {
			e.end("panic", "slice bounds out of range at "+e.pos2(x.Pos(), fr.fn))
		}
	}
	switch b := base.(type) {
	case SliceV:
		if x.High != nil {
			hi = e.idx64(fr, x.High)
		} else {
			hi = b.len
		}
		bad(Cmp("bvule", hi, b.cap))
		bad(Cmp("bvule", lo, hi))
		nc := Bin("bvsub", b.cap, lo)
		if x.Max != nil {
			mx := e.idx64(fr, x.Max)
			bad(Cmp("bvule", mx, b.cap))
			bad(Cmp("bvule", hi, mx))
			nc = Bin("bvsub", mx, lo)
		}
		r := SliceV{sa: b.sa, cells: b.cells, off: Bin("bvadd", b.off, lo), len: Bin("bvsub", hi, lo), cap: nc, isNil: b.isNil}
		if b.sa != nil {
			if r.off.Op != "c" {
				r.off = e.uniqueValue(r.off)
			}
			if r.len.Op != "c" {
				r.len = e.uniqueValue(r.len)
			}
			if r.cap.Op != "c" {
				r.cap = e.uniqueValue(r.cap)
			}
		}
		if b.sa == nil && b.cells != nil {
			if r.off.Op != "c" {
				r.off = e.uniqueValue(r.off)
			}
			if r.len.Op != "c" {
				r.len = e.uniqueValue(r.len)
			}
			if r.off.Op != "c" || r.len.Op != "c" {
				// case split on lo and hi
				lk := e.concretize(lo, Bin("bvadd", b.cap, c64(1)))
				hk := e.concretize(hi, Bin("bvadd", b.cap, c64(1)))
				r.off = c64(b.off.C + lk)
				r.len = c64(hk - lk)
				r.cap = Bin("bvsub", b.cap, c64(lk))
			}
		}
		return r
	case StrV:
		if x.High != nil {
			hi = e.idx64(fr, x.High)
		} else {
			hi = b.len
		}
		bad(Cmp("bvule", hi, b.len))
		bad(Cmp("bvule", lo, hi))
		return StrV{a: b.a, off: Bin("bvadd", b.off, lo), len: Bin("bvsub", hi, lo)}
	case Ptr: // *array
		if b.loc == nil {
			e.end("panic", "nil dereference (slice) at "+e.cur)
		}
		switch l := b.loc.(type) {
		case *SArrLoc:
			n := c64(uint64(l.n))
			if x.High != nil {
				hi = e.idx64(fr, x.High)
			} else {
				hi = n
			}
			bad(Cmp("bvule", hi, n))
			bad(Cmp("bvule", lo, hi))
			return SliceV{sa: l.a, off: lo, len: Bin("bvsub", hi, lo), cap: Bin("bvsub", n, lo)}
		case *ArrayLoc:
			n := c64(uint64(len(l.e)))
			if x.High != nil {
				hi = e.idx64(fr, x.High)
			} else {
				hi = n
			}
			bad(Cmp("bvule", hi, n))
			bad(Cmp("bvule", lo, hi))
			lk := e.concretize(lo, c64(uint64(len(l.e))+1))
			hk := e.concretize(hi, c64(uint64(len(l.e))+1))
			return SliceV{cells: l.e, off: c64(lk), len: c64(hk - lk), cap: c64(uint64(len(l.e)) - lk)}
		}
	}
	panic(fmt.Sprintf("slice %T", base))
}

// ---- maps
func (e *Engine) keyEq(a, b Value) *Term {
	switch x := a.(type) {
	case *Term:
		return Cmp("=", x, b.(*Term))
	case StrV:
		return e.strEq(x, b.(StrV))
	}
	panic(fmt.Sprintf("keyEq %T", a))
}
func (e *Engine) mapFind(m MapV, k Value) int {
	if m.m == nil {
		return -1
	}
	if t, ok := k.(*Term); ok && t.Op != "c" && len(m.m.keys) > 0 {
		// keys are very often pinned to one value by the path condition: find out once
		k = e.uniqueValue(t)
	}
	for i := len(m.m.keys) - 1; i >= 0; i-- {
		if e.decide(e.keyEq(m.m.keys[i], k)) {
			return i
		}
	}
	return -1
}
func (e *Engine) mapLookup(m MapV, k Value) (Value, bool) {
	i := e.mapFind(m, k)
	if i < 0 {
		return nil, false
	}
	return m.m.vals[i], true
}
func (e *Engine) mapUpdate(m MapV, k, v Value) {
	if m.m == nil {
		e.end("panic", "assignment to entry in nil map at "+e.cur)
	}
	i := e.mapFind(m, k)
	if i >= 0 {
		m.m.vals[i] = v
		return
	}
	m.m.keys = append(m.m.keys, k)
	m.m.vals = append(m.m.vals, v)
}

// symCount turns a symbolic count into a concrete one by forking over 0..max.
func (e *Engine) symCount(n *Term, max uint64, what string) uint64 {
	n = e.uniqueValue(n)
	if n.Op == "c" {
		return n.C
	}
	for k := uint64(0); k <= max; k++ {
		if !e.decide(Cmp("bvult", c64(k), n)) {
			return k
		}
	}
	e.end("unwind", fmt.Sprintf("%s of more than %d elements at %s", what, max, e.cur))
	return 0
}

func (e *Engine) builtin(fr *frame, b *ssa.Builtin, args []Value, c *ssa.CallCommon) Value {
	switch b.Name() {
	case "len":
		switch x := args[0].(type) {
		case SliceV:
			return x.len
		case StrV:
			return x.len
		case MapV:
			if x.m == nil {
				return c64(0)
			}
			return c64(uint64(len(x.m.keys)))
		case SArrV:
			return c64(uint64(x.n))
		case ArrayV:
			return c64(uint64(len(x)))
		case Ptr:
			switch l := x.loc.(type) {
			case *SArrLoc:
				return c64(uint64(l.n))
			case *ArrayLoc:
				return c64(uint64(len(l.e)))
			}
		}
	case "cap":
		return args[0].(SliceV).cap
	case "delete":
		m := args[0].(MapV)
		i := e.mapFind(m, args[1])
		if i >= 0 {
			m.m.keys = append(m.m.keys[:i:i], m.m.keys[i+1:]...)
			m.m.vals = append(m.m.vals[:i:i], m.m.vals[i+1:]...)
		}
		return nil
	case "copy":
		dst := args[0].(SliceV)
		var sa *SArr
		var soff, slen *Term
		switch s := args[1].(type) {
		case SliceV:
			sa, soff, slen = s.sa, s.off, s.len
			if s.sa == nil && s.cells != nil {
				// cell copy with concrete bounds
				if dst.len.Op != "c" || s.len.Op != "c" {
					e.end("unsupported", "copy of cell slice with symbolic length")
				}
				n := dst.len.C
				if s.len.C < n {
					n = s.len.C
				}
				vals := make([]Value, n)
				for i := uint64(0); i < n; i++ {
					vals[i] = s.cells[s.off.C+i].Load()
				}
				for i := uint64(0); i < n; i++ {
					dst.cells[dst.off.C+i].Store(vals[i])
				}
				return c64(n)
			}
		case StrV:
			sa, soff, slen = s.a, s.off, s.len
		}
		n := Ite(Cmp("bvult", dst.len, slen), dst.len, slen)
		nc := e.symCount(n, uint64(e.cfg.Params["copymax"]), "copy")
		if nc == 0 {
			return c64(0)
		}
		if sa == nil {
			sa = ZeroSArr(dst.sa.ew)
		}
		// fast path: whole-array copy into a fresh zero array shares the term
		if nc > 16 && dst.sa.base.Op == "constarr" && len(dst.sa.ov) == 0 && dst.off.Op == "c" && dst.off.C == 0 &&
			soff.Op == "c" && soff.C == 0 && dst.cap.Op == "c" && dst.cap.C == nc {
			cl := sa.Clone()
			dst.sa.base, dst.sa.ov = cl.base, cl.ov
			return c64(nc)
		}
		vals := make([]*Term, nc)
		for i := uint64(0); i < nc; i++ {
			vals[i] = sa.Load(Bin("bvadd", soff, c64(i)))
		}
		for i := uint64(0); i < nc; i++ {
			dst.sa.Store(Bin("bvadd", dst.off, c64(i)), vals[i])
		}
		return c64(nc)
	case "append":
		s := args[0].(SliceV)
		el := c.Args[0].Type().Underlying().(*types.Slice).Elem()
		w, sc := isScalar(el)
		var add SliceV
		switch a := args[1].(type) {
		case SliceV:
			add = a
		case StrV:
			add = SliceV{sa: a.a, off: a.off, len: a.len, cap: a.len}
		}
		if sc && w > 0 {
			addn := e.symCount(add.len, uint64(e.cfg.Params["copymax"]), "append")
			if addn == 0 {
				return s
			}
			if !e.decide(Cmp("bvule", Bin("bvadd", s.len, c64(addn)), c64(maxAlloc))) {
				e.end("oom", "append grows slice beyond limit at "+e.cur)
			}
			inPlace := s.sa != nil && e.decide(Cmp("bvule", Bin("bvadd", s.len, c64(addn)), s.cap))
			res := s
			if !inPlace {
				na := ZeroSArr(w)
				if s.sa != nil {
					if s.len.Op != "c" {
						// keep sharing content: clone backing
						na = s.sa.Clone()
						res = SliceV{sa: na, off: s.off, len: s.len, cap: Bin("bvadd", Bin("bvadd", s.len, c64(addn)), c64(8))}
					} else {
						for i := uint64(0); i < s.len.C; i++ {
							na.Store(c64(i), s.sa.Load(Bin("bvadd", s.off, c64(i))))
						}
						res = SliceV{sa: na, off: c64(0), len: s.len, cap: c64(2*(s.len.C+addn) + 8)}
					}
				} else if add.off.Op == "c" && add.off.C == 0 && addn > 16 {
					// fast path: append whole array to nil shares the term
					return SliceV{sa: add.sa.Clone(), off: c64(0), len: c64(addn), cap: c64(addn)}
				} else {
					res = SliceV{sa: na, off: c64(0), len: c64(0), cap: c64(2*addn + 8)}
				}
			}
			for i := uint64(0); i < addn; i++ {
				res.sa.Store(Bin("bvadd", Bin("bvadd", res.off, res.len), c64(i)), add.sa.Load(Bin("bvadd", add.off, c64(i))))
			}
			res.len = Bin("bvadd", res.len, c64(addn))
			res.isNil = false
			return res
		}
		// cell-backed: always reallocate (copy cells' values)
		if s.len.Op != "c" || add.len.Op != "c" {
			e.end("unsupported", "append to non-scalar slice with symbolic length at "+e.cur)
		}
		if add.len.C == 0 {
			return s
		}
		var cells []Loc
		// in place if capacity allows (aliasing semantics)
		if s.cells != nil && s.cap.Op == "c" && s.len.C+add.len.C <= s.cap.C {
			for i := uint64(0); i < add.len.C; i++ {
				s.cells[s.off.C+s.len.C+i].Store(add.cells[add.off.C+i].Load())
			}
			s.len = c64(s.len.C + add.len.C)
			s.isNil = false
			return s
		}
		for i := uint64(0); i < s.len.C; i++ {
			nl := newLoc(el)
			nl.Store(s.cells[s.off.C+i].Load())
			cells = append(cells, nl)
		}
		for i := uint64(0); i < add.len.C; i++ {
			nl := newLoc(el)
			nl.Store(add.cells[add.off.C+i].Load())
			cells = append(cells, nl)
		}
		n := uint64(len(cells))
		// spare capacity like the runtime (amortised growth)
		for i := uint64(0); i < n; i++ {
			cells = append(cells, newLoc(el))
		}
		return SliceV{cells: cells, off: c64(0), len: c64(n), cap: c64(2 * n)}
	case "min", "max":
		a, bb := args[0].(*Term), args[1].(*Term)
		lt := Cmp("bvult", a, bb)
		if b.Name() == "min" {
			return Ite(lt, a, bb)
		}
		return Ite(lt, bb, a)
	case "print", "println":
		return nil
	case "recover":
		return IfaceV{}
	}
	panic("builtin " + b.Name())
}

func (e *Engine) valEq(a, b Value) *Term {
	switch x := a.(type) {
	case *Term:
		return Cmp("=", x, b.(*Term))
	case StrV:
		return e.strEq(x, b.(StrV))
	case StructV:
		eq := BoolC(true)
		for i := range x {
			eq = And(eq, e.valEq(x[i], b.(StructV)[i]))
		}
		return eq
	case ArrayV:
		eq := BoolC(true)
		for i := range x {
			eq = And(eq, e.valEq(x[i], b.(ArrayV)[i]))
		}
		return eq
	case SArrV:
		y := b.(SArrV)
		eq := BoolC(true)
		for i := int64(0); i < x.n; i++ {
			eq = And(eq, Cmp("=", x.a.Load(c64(uint64(i))), y.a.Load(c64(uint64(i)))))
		}
		return eq
	case Ptr:
		return BoolC(x.loc == b.(Ptr).loc)
	case IfaceV:
		y := b.(IfaceV)
		if x.t == nil || y.t == nil {
			return BoolC(x.t == nil && y.t == nil)
		}
		if !types.Identical(x.t, y.t) {
			return BoolC(false)
		}
		return e.valEq(x.v, y.v)
	case MapV:
		return BoolC(x.m == b.(MapV).m)
	}
	panic(fmt.Sprintf("valEq %T", a))
}

// uniqueIdx: a symbolic byte-array index of the form base (+ const) whose base the path condition forces
// to one value becomes a constant (a copy loop at a symbolic offset would otherwise leave a chain of
// stores at symbolic indexes, which turns every later read of the array into a deep ite chain).
func (e *Engine) uniqueIdx(idx *Term) *Term {
	if idx.Op == "c" || noUniqIdx || e.cfg.Params["realwal"] == 1 || strings.HasPrefix(e.cur, "wal/") {
		// (the write-ahead-log harnesses index with positions modulo the log size; nothing is gained
		// there, and the extra recorded values are not needed)
		return idx
	}
	base, k := idx, uint64(0)
	if idx.Op == "bvadd" && idx.Args[1].Op == "c" {
		base, k = idx.Args[0], idx.Args[1].C
	}
	if u := e.uniqueValue(base); u.Op == "c" {
		return Const(idx.W(), u.C+k)
	}
	return idx
}

var noUniqIdx = os.Getenv("GOSYM_NOUNIQIDX") != ""

// uniqueValue returns a constant if the path condition forces t to one value.
func (e *Engine) uniqueValue(t *Term) *Term {
	if t.Op == "c" {
		return t
	}
	if v, ok := e.uniq[t.id]; ok {
		return v
	}
	if t2 := e.substUniq(t, 0); t2.Op == "c" {
		e.uniq[t.id] = t2
		return t2
	}
	const none = ^uint64(0) - 12345
	r := e.record(func() uint64 {
		e.ensureFeasible()
		vals, ok := e.sol.Model(BoolC(true), []*Term{t})
		if !ok {
			return none
		}
		c := Const(t.W(), vals[0])
		if e.sol.CheckWith(Not(Cmp("=", t, c))) == "unsat" {
			return vals[0]
		}
		return none
	})
	if r == none {
		e.uniq[t.id] = t
		return t
	}
	c := Const(t.W(), r)
	e.uniq[t.id] = c
	return c
}
