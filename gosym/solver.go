package main

import (
	"sync"
	"bufio"
	"fmt"
	"io"
	"os"
	"os/exec"
	"strings"
	"time"
)

// Solver is one long-lived SMT solver process driven through stdin/stdout with push/pop.
type Solver struct {
	bin     string
	args    []string
	cmd     *exec.Cmd
	in      io.WriteCloser
	out     *bufio.Reader
	p       *printer
	asserted [][]*Term // assertions per level (for one-shot fallback)
	lastOne  bool      // the last Check was answered by the one-shot fallback
	OneShots int
	Rebuilds int
	levels  [][]int32  // term ids named per level
	dlevels [][]string // var names declared per level
	Queries int
	Unknown int
	Time    time.Duration
	MaxQ    time.Duration
	log     io.Writer
	timeout int // ms per query
	global  bool
	fastMs  int
	Fallbacks int
	scratch *Solver // second process for sliced (independent) queries
	Sliced  int
}

func NewSolver(bin string, timeoutMs int, log io.Writer) *Solver {
	s := &Solver{bin: bin, log: log, timeout: timeoutMs, fastMs: 150}
	if v := os.Getenv("GOSYM_FASTMS"); v != "" {
		fmt.Sscanf(v, "%d", &s.fastMs)
	}
	s.start()
	return s
}

func (s *Solver) start() {
	var args []string
	switch {
	case strings.Contains(s.bin, "cvc5"):
		args = []string{"--incremental", "--produce-models", "--lang=smt2", fmt.Sprintf("--tlimit-per=%d", s.timeout)}
	default:
		args = []string{"-in", fmt.Sprintf("-t:%d", s.timeout)}
	}
	s.args = args
	cmd := exec.Command(s.bin, args...)
	in, _ := cmd.StdinPipe()
	outp, _ := cmd.StdoutPipe()
	cmd.Stderr = cmd.Stdout
	if err := cmd.Start(); err != nil {
		panic(err)
	}
	s.cmd, s.in, s.out = cmd, in, bufio.NewReaderSize(outp, 1<<20)
	s.p = &printer{named: map[int32]string{}, decl: map[string]bool{}}
	s.levels = [][]int32{nil}
	s.dlevels = [][]string{nil}
	s.asserted = [][]*Term{nil}
	if strings.Contains(s.bin, "cvc5") {
		s.send("(set-logic ALL)\n")
	} else {
		s.send("(set-option :produce-models true)\n(set-option :global-decls true)\n")
		s.global = true
	}
}

func (s *Solver) send(txt string) {
	if s.log != nil {
		io.WriteString(s.log, txt)
	}
	io.WriteString(s.in, txt)
}

// emit prints definitions needed for t and returns its reference.
func (s *Solver) emit(t *Term) string {
	var sb strings.Builder
	s.p.sb = &sb
	s.p.newIds, s.p.newDecls = nil, nil
	r := s.p.ref(t)
	top := len(s.levels) - 1
	s.levels[top] = append(s.levels[top], s.p.newIds...)
	s.dlevels[top] = append(s.dlevels[top], s.p.newDecls...)
	if sb.Len() > 0 {
		s.send(sb.String())
	}
	return r
}

func (s *Solver) Push() {
	s.asserted = append(s.asserted, nil)
	s.send("(push 1)\n")
	s.levels = append(s.levels, nil)
	s.dlevels = append(s.dlevels, nil)
}

func (s *Solver) Pop() {
	s.asserted = s.asserted[:len(s.asserted)-1]
	s.send("(pop 1)\n")
	top := len(s.levels) - 1
	if !s.global {
		for _, id := range s.levels[top] {
			delete(s.p.named, id)
		}
		for _, n := range s.dlevels[top] {
			delete(s.p.decl, n)
		}
	} else if top > 0 {
		// definitions are global: keep them, but account them to the base level so that Reset sees them
		s.levels[0] = append(s.levels[0], s.levels[top]...)
		s.dlevels[0] = append(s.dlevels[0], s.dlevels[top]...)
	}
	s.levels = s.levels[:top]
	s.dlevels = s.dlevels[:top]
}

func (s *Solver) Depth() int { return len(s.levels) - 1 }

// PopTo pops down to the given depth.
func (s *Solver) PopTo(d int) {
	for s.Depth() > d {
		s.Pop()
	}
}

// Reset returns the solver to an empty state (keeps the process).
func (s *Solver) Reset() {
	if s.scratch != nil {
		s.scratch.Reset()
	}
	s.PopTo(0)
	// level 0 may hold definitions from an earlier job: drop them with a reset
	if len(s.levels[0]) > 0 || len(s.dlevels[0]) > 0 {
		s.send("(reset)\n")
		s.asserted = [][]*Term{nil}
		s.p = &printer{named: map[int32]string{}, decl: map[string]bool{}}
		s.levels = [][]int32{nil}
		s.dlevels = [][]string{nil}
		if strings.Contains(s.bin, "cvc5") {
			s.send("(set-logic ALL)\n")
		} else {
			s.send("(set-option :produce-models true)\n(set-option :global-decls true)\n")
		}
	}
}

func (s *Solver) Assert(t *Term) {
	if t.IsTrue() {
		return
	}
	r := s.emit(t)
	s.send("(assert " + r + ")\n")
	s.asserted[len(s.asserted)-1] = append(s.asserted[len(s.asserted)-1], t)
}

func (s *Solver) readLine() string {
	l, err := s.out.ReadString('\n')
	if err != nil {
		panic("solver died: " + err.Error())
	}
	return strings.TrimSpace(l)
}

var solverMode = os.Getenv("GOSYM_MODE") // "", inc, tactic, hybrid

// rebuild resets the solver process state and replays the current assertion stack.
func (s *Solver) rebuild() {
	s.Rebuilds++
	// a fresh process is the only state that is certainly clean
	func() {
		defer func() { recover() }()
		s.in.Close()
		s.cmd.Process.Kill()
		s.cmd.Wait()
	}()
	saved := s.asserted
	s.start()
	for i, lvl := range saved {
		if i > 0 {
			s.send("(push 1)\n")
			s.levels = append(s.levels, nil)
			s.dlevels = append(s.dlevels, nil)
			s.asserted = append(s.asserted, nil)
		}
		for _, t := range lvl {
			s.Assert(t)
		}
	}
}

// Check returns "sat","unsat","unknown".
func (s *Solver) Check() string {
	t0 := time.Now()
	var r string
	mode := solverMode
	if mode == "" {
		mode = "hybrid"
	}
	if !s.global {
		mode = "inc"
	}
	switch mode {
	case "inc":
		s.send("(check-sat)\n")
		r = s.readLine()
	case "tactic":
		s.send("(check-sat-using qfaufbv)\n")
		r = s.readLine()
	default:
		s.send(fmt.Sprintf("(set-option :timeout %d)\n(check-sat)\n", s.fastMs))
		r = s.readLine()
		s.lastOne = false
		if strings.HasPrefix(r, "(error") {
			// an error line instead of an answer: a command sent after an earlier timeout was dropped
			// ("push canceled") and the process is out of step. Start a fresh process, replay the
			// assertion stack and ask again; only a second failure makes the query inconclusive.
			s.rebuild()
			s.send(fmt.Sprintf("(set-option :timeout %d)\n(check-sat)\n", s.fastMs))
			r = s.readLine()
		}
		if r == "unknown" {
			s.Fallbacks++
			s.send(fmt.Sprintf("(set-option :timeout %d)\n(check-sat-using qfaufbv)\n", s.timeout/4))
			r = s.readLine()
			if r == "unknown" {
				// one-shot: a fresh solver on the cone of influence of the current assertions
				r, _ = s.oneShot(nil)
				s.lastOne = true
			}
		}
	}
	if r != "sat" && r != "unsat" {
		// after a timeout / error z3 can be left mid-cancellation and drop later commands ("push
		// canceled"): bring it back to a known state by replaying the assertion stack
		s.rebuild()
	}
	d := time.Since(t0)
	if s.log != nil {
		fmt.Fprintf(s.log, "; took %.3fs -> %s\n", d.Seconds(), r)
	}
	s.Queries++
	s.Time += d
	if d > s.MaxQ {
		s.MaxQ = d
	}
	if strings.HasPrefix(r, "(error") || (r != "sat" && r != "unsat") {
		s.Unknown++
		if strings.HasPrefix(r, "(error") {
			return "error: " + r
		}
		return "unknown"
	}
	return r
}

// CheckWith checks PC ∧ extra without keeping extra.
func (s *Solver) CheckWith(extra *Term) string {
	if extra.IsTrue() {
		return s.Check()
	}
	if extra.IsFalse() {
		return "unsat"
	}
	s.Push()
	s.Assert(extra)
	r := s.Check()
	s.Pop()
	return r
}

var varCache sync.Map // term id -> []string (free variable names)

func termVars(t *Term) []string {
	if v, ok := varCache.Load(t.id); ok {
		return v.([]string)
	}
	m := map[string]*Term{}
	collectVars(t, map[int32]bool{}, m)
	ks := sortedVarNames(m)
	varCache.Store(t.id, ks)
	return ks
}

// CheckSliced checks PC ∧ extra when PC is KNOWN to be satisfiable: only the assertions connected to
// extra through shared variables matter (the rest is satisfiable on its own and shares no variable with
// them), so they are checked alone in a scratch process. Falls back to CheckWith when the slice is most
// of the path condition or the scratch answer is not definite.
func (s *Solver) CheckSliced(extra *Term) string {
	if extra.IsTrue() {
		return "sat"
	}
	if extra.IsFalse() {
		return "unsat"
	}
	if !s.global || noSlice {
		return s.CheckWith(extra)
	}
	V := map[string]bool{}
	for _, n := range termVars(extra) {
		V[n] = true
	}
	var all []*Term
	for _, lvl := range s.asserted {
		all = append(all, lvl...)
	}
	inc := make([]bool, len(all))
	cnt := 0
	for changed := true; changed; {
		changed = false
		for i, a := range all {
			if inc[i] {
				continue
			}
			vs := termVars(a)
			hit := false
			for _, n := range vs {
				if V[n] {
					hit = true
					break
				}
			}
			if hit {
				inc[i] = true
				cnt++
				changed = true
				for _, n := range vs {
					V[n] = true
				}
			}
		}
	}
	if cnt*2 > len(all) {
		return s.CheckWith(extra)
	}
	t0 := time.Now()
	if s.scratch == nil {
		s.scratch = NewSolver(s.bin, s.timeout, nil)
	}
	sc := s.scratch
	sc.Push()
	for i, a := range all {
		if inc[i] {
			sc.Assert(a)
		}
	}
	sc.Assert(extra)
	r := sc.Check()
	sc.Pop()
	if r != "sat" && r != "unsat" {
		return s.CheckWith(extra)
	}
	s.Sliced++
	s.Queries++
	s.Time += time.Since(t0)
	if len(sc.levels[0]) > 200000 {
		sc.Reset()
	}
	return r
}

var envNoSlice = os.Getenv("GOSYM_NOSLICE") != ""
var noSlice = envNoSlice

func parseVal(v string) (uint64, bool) {
	var x uint64
	switch {
	case strings.HasPrefix(v, "#x"):
		fmt.Sscanf(v[2:], "%x", &x)
	case strings.HasPrefix(v, "#b"):
		fmt.Sscanf(v[2:], "%b", &x)
	case v == "true":
		x = 1
	case v == "false":
		x = 0
	case strings.HasPrefix(v, "(_ bv"):
		fmt.Sscanf(v[5:], "%d", &x)
	default:
		return 0, false
	}
	return x, true
}

// readSexp reads one balanced s-expression from the solver (may span lines).
func (s *Solver) readSexp() string {
	var sb strings.Builder
	depth := 0
	started := false
	for {
		l, err := s.out.ReadString('\n')
		if err != nil {
			panic("solver died: " + err.Error())
		}
		sb.WriteString(l)
		inBar := false
		for _, ch := range l {
			if ch == '|' {
				inBar = !inBar
			}
			if inBar {
				continue
			}
			if ch == '(' {
				depth++
				started = true
			} else if ch == ')' {
				depth--
			}
		}
		if started && depth <= 0 {
			return sb.String()
		}
		if !started && strings.TrimSpace(l) != "" {
			return sb.String()
		}
	}
}

// oneShot solves the current assertion stack in a fresh process (full-strength, non-incremental
// pipeline), optionally evaluating ts in the model.
func (s *Solver) oneShot(ts []*Term) (string, []uint64) {
	r, v := s.oneShotX(ts, false)
	if r == "unknown" {
		// lambda arrays can make z3 give up: retry with range stores expanded into plain stores
		r, v = s.oneShotX(ts, true)
	}
	return r, v
}

func (s *Solver) oneShotX(ts []*Term, expand bool) (string, []uint64) {
	s.OneShots++
	var sb strings.Builder
	p := &printer{named: map[int32]string{}, decl: map[string]bool{}, sb: &sb, expandRange: expand}
	sb.WriteString("(set-option :produce-models true)\n")
	var refs []string
	for _, lvl := range s.asserted {
		for _, t := range lvl {
			refs = append(refs, p.ref(t))
		}
	}
	for _, r := range refs {
		sb.WriteString("(assert " + r + ")\n")
	}
	var vrefs []string
	for _, t := range ts {
		vrefs = append(vrefs, p.ref(t))
	}
	sb.WriteString("(check-sat-using qfaufbv)\n")
	if len(vrefs) > 0 {
		sb.WriteString("(get-value (" + strings.Join(vrefs, " ") + "))\n")
	}
	cmd := exec.Command(s.bin, "-in", fmt.Sprintf("-T:%d", s.timeout/1000+1))
	cmd.Stdin = strings.NewReader(sb.String())
	t0 := time.Now()
	out, err := cmd.Output()
	txt := string(out)
	if os.Getenv("GOSYM_DEBUG") != "" {
		head := txt
		if len(head) > 80 {
			head = head[:80]
		}
		fmt.Fprintf(os.Stderr, "  oneshot: %d bytes in, %.1fs, err=%v, out=%q\n", sb.Len(), time.Since(t0).Seconds(), err, head)
	}
	line := txt
	if i := strings.Index(txt, "\n"); i >= 0 {
		line = txt[:i]
		txt = txt[i+1:]
	} else {
		txt = ""
	}
	line = strings.TrimSpace(line)
	if line != "sat" && line != "unsat" {
		return "unknown", nil
	}
	var vals []uint64
	if line == "sat" && len(vrefs) > 0 {
		vals = parseGetValue(txt, len(vrefs))
	}
	return line, vals
}

// Values evaluates scalar terms in the current model (call right after a sat Check, same level).
func (s *Solver) Values(ts []*Term) []uint64 {
	if s.lastOne {
		_, vals := s.oneShot(ts)
		if vals == nil {
			vals = make([]uint64, len(ts))
		}
		return vals
	}
	res := make([]uint64, len(ts))
	const chunk = 512
	for base := 0; base < len(ts); base += chunk {
		end := base + chunk
		if end > len(ts) {
			end = len(ts)
		}
		refs := make([]string, 0, end-base)
		for _, t := range ts[base:end] {
			refs = append(refs, s.emit(t))
		}
		s.send("(get-value (" + strings.Join(refs, " ") + "))\n")
		out := s.readSexp()
		vals := parseGetValue(out, len(refs))
		for i, v := range vals {
			res[base+i] = v
		}
	}
	return res
}

// parseGetValue parses "((e1 v1) (e2 v2) ...)" taking the last atom of each pair.
func parseGetValue(out string, n int) []uint64 {
	res := make([]uint64, 0, n)
	// tokenise at depth 2
	depth := 0
	var cur strings.Builder
	inBar := false
	for _, ch := range out {
		if ch == '|' {
			inBar = !inBar
		}
		if !inBar {
			if ch == '(' {
				depth++
				if depth == 2 {
					cur.Reset()
					continue
				}
			} else if ch == ')' {
				if depth == 2 {
					pair := strings.TrimSpace(cur.String())
					// value is the trailing token or trailing parenthesised "(_ bvN w)"
					var v string
					if strings.HasSuffix(pair, ")") {
						i := strings.LastIndex(pair, "(_ bv")
						if i >= 0 {
							v = pair[i:]
						}
					} else {
						f := strings.Fields(pair)
						v = f[len(f)-1]
					}
					x, _ := parseVal(v)
					res = append(res, x)
				}
				depth--
				continue
			}
		}
		if depth >= 2 {
			cur.WriteRune(ch)
		}
	}
	for len(res) < n {
		res = append(res, 0)
	}
	return res
}

// Model checks PC ∧ extra and, if sat, evaluates ts. ok=false if not sat.
func (s *Solver) Model(extra *Term, ts []*Term) ([]uint64, bool) {
	s.Push()
	s.Assert(extra)
	var res []uint64
	ok := s.Check() == "sat"
	if ok {
		res = s.Values(ts)
	}
	s.Pop()
	return res, ok
}

func (s *Solver) Close() {
	if s.scratch != nil {
		s.scratch.Close()
	}
	defer func() { recover() }()
	s.send("(exit)\n")
	s.in.Close()
	s.cmd.Wait()
}
