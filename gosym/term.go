package main

import (
	"fmt"
	"hash/maphash"
	"sort"
	"strings"
	"sync"
	"sync/atomic"
)

// Sorts: BV(w) w>0 ; Bool w==0 ; Array idx 64 -> elem AW ; A2: array of arrays of 8-bit
type Sort struct {
	W  int16
	AW int16
	A2 bool
}

var Arr2 = Sort{W: -1, AW: 8, A2: true}

func BV(w int) Sort  { return Sort{W: int16(w)} }
func Arr(w int) Sort { return Sort{W: -1, AW: int16(w)} }

var BoolS = Sort{W: 0}

func (s Sort) IsArr() bool { return s.AW > 0 }

func (s Sort) smt() string {
	if s.A2 {
		return fmt.Sprintf("(Array (_ BitVec 64) (Array (_ BitVec 64) (_ BitVec %d)))", s.AW)
	}
	if s.AW > 0 {
		return fmt.Sprintf("(Array (_ BitVec 64) (_ BitVec %d))", s.AW)
	}
	if s.W == 0 {
		return "Bool"
	}
	return fmt.Sprintf("(_ BitVec %d)", s.W)
}

type Term struct {
	Op   string
	S    Sort
	Args []*Term
	C    uint64 // const value (Op=="c"), or bool 0/1 (Op=="b")
	Name string // var
	P1   int    // extract hi / ext amount
	P2   int    // extract lo
	id   int32
	Args2 *Term // rangestore: the stored value (Args = base, lo, hi)
}

func (t *Term) W() int { return int(t.S.W) }

type tkey struct {
	op         string
	s          Sort
	c          uint64
	name       string
	p1, p2     int32
	n          int8
	a0, a1, a2 int32
	x          int32
}

const nShards = 256

type termShard struct {
	mu sync.Mutex
	m  map[tkey]*Term
}

var (
	shards   [nShards]termShard
	termCnt  int32
	hashSeed = maphash.MakeSeed()
)

func init() { resetTerms() }

func resetTerms() {
	for i := range shards {
		shards[i].m = map[tkey]*Term{}
	}
}

func TermCount() int { return int(atomic.LoadInt32(&termCnt)) }

func mk(t *Term) *Term {
	k := tkey{op: t.Op, s: t.S, c: t.C, name: t.Name, p1: int32(t.P1), p2: int32(t.P2), n: int8(len(t.Args))}
	if t.Args2 != nil {
		k.x = t.Args2.id
	}
	h := uint64(len(t.Op))*131 + t.C*31 + uint64(t.P1)*7 + uint64(t.P2)
	if len(t.Op) > 0 {
		h = h*131 + uint64(t.Op[len(t.Op)-1])
		h = h*131 + uint64(t.Op[0])
	}
	for i, a := range t.Args {
		h = h*1000003 + uint64(a.id)
		switch i {
		case 0:
			k.a0 = a.id
		case 1:
			k.a1 = a.id
		case 2:
			k.a2 = a.id
		default:
			panic("term with >3 args")
		}
	}
	if t.Name != "" {
		h ^= maphash.String(hashSeed, t.Name)
	}
	sh := &shards[(h^(h>>17)^(h>>31))%nShards]
	sh.mu.Lock()
	if o, ok := sh.m[k]; ok {
		sh.mu.Unlock()
		return o
	}
	t.id = atomic.AddInt32(&termCnt, 1)
	sh.m[k] = t
	sh.mu.Unlock()
	return t
}

func mask(w int) uint64 {
	if w >= 64 {
		return ^uint64(0)
	}
	return (uint64(1) << uint(w)) - 1
}

func Const(w int, v uint64) *Term { return mk(&Term{Op: "c", S: BV(w), C: v & mask(w)}) }
func c64(v uint64) *Term          { return Const(64, v) }
func BoolC(b bool) *Term {
	if b {
		return mk(&Term{Op: "b", S: BoolS, C: 1})
	}
	return mk(&Term{Op: "b", S: BoolS, C: 0})
}
func Var(name string, s Sort) *Term { return mk(&Term{Op: "v", S: s, Name: name}) }
func (t *Term) IsConst() bool       { return t.Op == "c" || t.Op == "b" }
func (t *Term) IsTrue() bool        { return t.Op == "b" && t.C == 1 }
func (t *Term) IsFalse() bool       { return t.Op == "b" && t.C == 0 }

func sext64(v uint64, w int) int64 {
	if w >= 64 {
		return int64(v)
	}
	sh := uint(64 - w)
	return int64(v<<sh) >> sh
}

func isPow2(x uint64) (int, bool) {
	if x == 0 || x&(x-1) != 0 {
		return 0, false
	}
	n := 0
	for x > 1 {
		x >>= 1
		n++
	}
	return n, true
}

// ubound returns an upper bound on the unsigned value of t (cheap, syntactic).
func ubound(t *Term, depth int) uint64 {
	w := t.W()
	full := mask(w)
	if depth > 6 {
		return full
	}
	switch t.Op {
	case "c":
		return t.C
	case "zext":
		return ubound(t.Args[0], depth+1)
	case "extract":
		if t.P2 == 0 {
			u := ubound(t.Args[0], depth+1)
			if u <= full {
				return u
			}
		}
		return full
	case "bvand":
		a, b := ubound(t.Args[0], depth+1), ubound(t.Args[1], depth+1)
		if a < b {
			return a
		}
		return b
	case "bvurem":
		if t.Args[1].Op == "c" && t.Args[1].C > 0 {
			u := t.Args[1].C - 1
			a := ubound(t.Args[0], depth+1)
			if a < u {
				return a
			}
			return u
		}
		return ubound(t.Args[0], depth+1)
	case "bvudiv":
		if t.Args[1].Op == "c" && t.Args[1].C > 0 {
			return ubound(t.Args[0], depth+1) / t.Args[1].C
		}
		return ubound(t.Args[0], depth+1)
	case "bvlshr":
		if t.Args[1].Op == "c" {
			if t.Args[1].C >= uint64(w) {
				return 0
			}
			return ubound(t.Args[0], depth+1) >> t.Args[1].C
		}
		return ubound(t.Args[0], depth+1)
	case "bvadd":
		a, b := ubound(t.Args[0], depth+1), ubound(t.Args[1], depth+1)
		if a+b >= a && a+b <= full {
			return a + b
		}
		return full
	case "bvmul":
		a, b := ubound(t.Args[0], depth+1), ubound(t.Args[1], depth+1)
		if a == 0 || b == 0 {
			return 0
		}
		if a <= full/b {
			return a * b
		}
		return full
	case "bvshl":
		if t.Args[1].Op == "c" && t.Args[1].C < 64 {
			a := ubound(t.Args[0], depth+1)
			if a <= full>>t.Args[1].C {
				return a << t.Args[1].C
			}
		}
		return full
	case "bvor", "bvxor":
		a, b := ubound(t.Args[0], depth+1), ubound(t.Args[1], depth+1)
		m := a | b
		// smallest 2^k-1 >= m
		r := uint64(0)
		for r < m {
			r = r<<1 | 1
		}
		if r < full {
			return r
		}
		return full
	case "ite":
		a, b := ubound(t.Args[1], depth+1), ubound(t.Args[2], depth+1)
		if a > b {
			return a
		}
		return b
	}
	return full
}

// lowPart: lo = zext_w(extract(l-1..0, t)) (or t itself when l = width of t) -> (t, l)
func lowPart(lo *Term) (*Term, int) {
	x := lo
	if x.Op == "zext" {
		x = x.Args[0]
	}
	if x.Op == "extract" && x.P2 == 0 {
		return x.Args[0], x.P1 + 1
	}
	return nil, 0
}

func recompose(lo, hi *Term, w int) *Term {
	t, l := lowPart(lo)
	if t == nil || t.W() != w {
		return nil
	}
	if hi.Op != "bvshl" || hi.Args[1].Op != "c" || int(hi.Args[1].C) != l {
		return nil
	}
	x := hi.Args[0]
	if x.Op == "zext" {
		x = x.Args[0]
	}
	if x.Op != "extract" || x.Args[0] != t || x.P2 != l {
		return nil
	}
	return ZExt(w, Extract(x.P1, 0, t))
}

// Bin builds a binary BV op with folding.
func Bin(op string, a, b *Term) *Term {
	w := a.W()
	if a.S != b.S {
		panic(fmt.Sprintf("Bin %s: sort mismatch %v %v", op, a.S, b.S))
	}
	if a.Op == "c" && b.Op == "c" {
		x, y := a.C, b.C
		switch op {
		case "bvadd":
			return Const(w, x+y)
		case "bvsub":
			return Const(w, x-y)
		case "bvmul":
			return Const(w, x*y)
		case "bvand":
			return Const(w, x&y)
		case "bvor":
			return Const(w, x|y)
		case "bvxor":
			return Const(w, x^y)
		case "bvudiv":
			if y != 0 {
				return Const(w, x/y)
			}
		case "bvurem":
			if y != 0 {
				return Const(w, x%y)
			}
		case "bvsdiv":
			if y != 0 {
				return Const(w, uint64(sext64(x, w)/sext64(y, w)))
			}
		case "bvsrem":
			if y != 0 {
				return Const(w, uint64(sext64(x, w)%sext64(y, w)))
			}
		case "bvshl":
			if y >= uint64(w) {
				return Const(w, 0)
			}
			return Const(w, x<<y)
		case "bvlshr":
			if y >= uint64(w) {
				return Const(w, 0)
			}
			return Const(w, x>>y)
		case "bvashr":
			if y >= uint64(w) {
				y = uint64(w - 1)
			}
			return Const(w, uint64(sext64(x, w)>>y))
		}
	}
	// canonical: constant on the right for commutative ops
	switch op {
	case "bvadd", "bvmul", "bvand", "bvor", "bvxor":
		if a.Op == "c" && b.Op != "c" {
			a, b = b, a
		}
	}
	if op == "bvor" {
		// little-endian recomposition: zext(extract(l-1..0, t)) | (zext(extract(h..l, t)) << l) = zext(extract(h..0, t))
		if r := recompose(a, b, w); r != nil {
			return r
		}
		if r := recompose(b, a, w); r != nil {
			return r
		}
	}
	switch op {
	case "bvadd", "bvor", "bvxor":
		if b.Op == "c" && b.C == 0 {
			return a
		}
	case "bvsub":
		if b.Op == "c" && b.C == 0 {
			return a
		}
		if a == b {
			return Const(w, 0)
		}
		if b.Op == "c" {
			return Bin("bvadd", a, Const(w, -b.C))
		}
		// (x + c) - x = c
		if a.Op == "bvadd" && a.Args[0] == b && a.Args[1].Op == "c" {
			return a.Args[1]
		}
	case "bvshl", "bvlshr":
		if b.Op == "c" && b.C == 0 {
			return a
		}
		if b.Op == "c" && b.C >= uint64(w) {
			return Const(w, 0)
		}
	case "bvmul":
		if b.Op == "c" && b.C == 1 {
			return a
		}
		if b.Op == "c" && b.C == 0 {
			return Const(w, 0)
		}
		if b.Op == "c" {
			if k, ok := isPow2(b.C); ok {
				return Bin("bvshl", a, Const(w, uint64(k)))
			}
		}
	case "bvudiv":
		if b.Op == "c" {
			if b.C == 1 {
				return a
			}
			if k, ok := isPow2(b.C); ok {
				return Bin("bvlshr", a, Const(w, uint64(k)))
			}
			if ubound(a, 0) < b.C {
				return Const(w, 0)
			}
		}
	case "bvurem":
		if b.Op == "c" {
			if b.C == 1 {
				return Const(w, 0)
			}
			if _, ok := isPow2(b.C); ok {
				return Bin("bvand", a, Const(w, b.C-1))
			}
			if ubound(a, 0) < b.C {
				return a
			}
		}
	case "bvand":
		if b.Op == "c" && b.C == 0 {
			return Const(w, 0)
		}
		if b.Op == "c" && b.C == mask(w) {
			return a
		}
		if a == b {
			return a
		}
		if b.Op == "c" {
			// x & (2^k-1) where x < 2^k
			if _, ok := isPow2(b.C + 1); ok && ubound(a, 0) <= b.C {
				return a
			}
			// (x << k) & m where m's low k bits only
			if a.Op == "bvshl" && a.Args[1].Op == "c" && a.Args[1].C < 64 && b.C>>a.Args[1].C == 0 {
				return Const(w, 0)
			}
			// (x & c1) & c2
			if a.Op == "bvand" && a.Args[1].Op == "c" {
				return Bin("bvand", a.Args[0], Const(w, a.Args[1].C&b.C))
			}
		}
	}
	// (x + c1) + c2
	if op == "bvadd" && b.Op == "c" && a.Op == "bvadd" && a.Args[1].Op == "c" {
		return Bin("bvadd", a.Args[0], Const(w, a.Args[1].C+b.C))
	}
	// (x << k) >> k where x small ; (x<<k1)>>k2
	if op == "bvlshr" && b.Op == "c" && a.Op == "bvshl" && a.Args[1].Op == "c" && a.Args[1].C == b.C {
		if ubound(a.Args[0], 0) <= mask(w)>>b.C {
			return a.Args[0]
		}
	}
	// (x + c) >> k  where low k bits of (x) are zero (x = y<<k) and c < 2^k
	if op == "bvlshr" && b.Op == "c" && a.Op == "bvadd" && a.Args[1].Op == "c" && a.Args[0].Op == "bvshl" &&
		a.Args[0].Args[1].Op == "c" && a.Args[0].Args[1].C >= b.C && b.C < 64 && a.Args[1].C < (uint64(1)<<b.C) {
		return Bin("bvlshr", a.Args[0], b)
	}
	// ((x << k) + c) & (2^k - 1) = c & (2^k-1) when c < 2^k
	if op == "bvand" && b.Op == "c" && a.Op == "bvadd" && a.Args[1].Op == "c" && a.Args[0].Op == "bvshl" && a.Args[0].Args[1].Op == "c" {
		k := a.Args[0].Args[1].C
		if k < 64 && b.C < (uint64(1)<<k) && a.Args[1].C < (uint64(1)<<k) {
			return Const(w, a.Args[1].C&b.C)
		}
	}
	return mk(&Term{Op: op, S: a.S, Args: []*Term{a, b}})
}

func Cmp(op string, a, b *Term) *Term {
	if a.S != b.S {
		panic(fmt.Sprintf("Cmp %s: sort mismatch %v %v", op, a.S, b.S))
	}
	if a.Op == "c" && b.Op == "c" {
		w := a.W()
		switch op {
		case "=":
			return BoolC(a.C == b.C)
		case "bvult":
			return BoolC(a.C < b.C)
		case "bvule":
			return BoolC(a.C <= b.C)
		case "bvslt":
			return BoolC(sext64(a.C, w) < sext64(b.C, w))
		case "bvsle":
			return BoolC(sext64(a.C, w) <= sext64(b.C, w))
		}
	}
	if a.Op == "b" && b.Op == "b" && op == "=" {
		return BoolC(a.C == b.C)
	}
	if a == b {
		switch op {
		case "=", "bvule", "bvsle":
			return BoolC(true)
		default:
			return BoolC(false)
		}
	}
	if op == "=" && a.S.W == 0 {
		if b.Op == "b" {
			a, b = b, a
		}
		if a.Op == "b" {
			if a.C == 1 {
				return b
			}
			return Not(b)
		}
	}
	if a.S.W > 0 {
		switch op {
		case "bvult":
			if ubound(a, 0) < lbound(b) {
				return BoolC(true)
			}
			if b.Op == "c" && b.C == 0 {
				return BoolC(false)
			}
			if a.Op == "c" && a.C >= ubound(b, 0) {
				return BoolC(false)
			}
		case "bvule":
			if ubound(a, 0) <= lbound(b) {
				return BoolC(true)
			}
			if a.Op == "c" && a.C == 0 {
				return BoolC(true)
			}
			if a.Op == "c" && a.C > ubound(b, 0) {
				return BoolC(false)
			}
		case "=":
			if a.Op == "c" {
				a, b = b, a
			}
			if b.Op == "c" {
				if ubound(a, 0) < b.C {
					return BoolC(false)
				}
				// ite(c, k1, k2) = k
				if a.Op == "ite" && a.Args[1].Op == "c" && a.Args[2].Op == "c" {
					t, f := a.Args[1].C == b.C, a.Args[2].C == b.C
					switch {
					case t && f:
						return BoolC(true)
					case t:
						return a.Args[0]
					case f:
						return Not(a.Args[0])
					default:
						return BoolC(false)
					}
				}
				// zext(x) = c
				if a.Op == "zext" {
					iw := a.Args[0].W()
					if b.C > mask(iw) {
						return BoolC(false)
					}
					return Cmp("=", a.Args[0], Const(iw, b.C))
				}
				// x + c1 = c2
				if a.Op == "bvadd" && a.Args[1].Op == "c" {
					return Cmp("=", a.Args[0], Const(a.W(), b.C-a.Args[1].C))
				}
			}
			// (x1<<k)+l1 = (x2<<k)+l2 with l1,l2 < 2^k  <=>  l1 = l2 and x1<<k = x2<<k
			if h1, k1, l1, ok1 := splitShl(a); ok1 {
				nz1 := !(l1.Op == "c" && l1.C == 0)
				if h2, k2, l2, ok2 := splitShl(b); ok2 && k1 == k2 && (nz1 || !(l2.Op == "c" && l2.C == 0)) {
					return And(Cmp("=", l1, l2), Cmp("=", h1, h2))
				} else if b.Op == "c" && k1 > 0 && nz1 {
					w := a.W()
					return And(Cmp("=", l1, Const(w, b.C&((uint64(1)<<uint(k1))-1))), Cmp("=", h1, Const(w, b.C&^((uint64(1)<<uint(k1))-1))))
				}
			}
		}
	}
	return mk(&Term{Op: op, S: BoolS, Args: []*Term{a, b}})
}

// splitShl decomposes t = (x << k) + lo with lo < 2^k; returns (x<<k, k, lo).
func splitShl(t *Term) (*Term, int, *Term, bool) {
	w := t.W()
	if w <= 0 {
		return nil, 0, nil, false
	}
	if t.Op == "bvshl" && t.Args[1].Op == "c" && t.Args[1].C > 0 && t.Args[1].C < uint64(w) {
		return t, int(t.Args[1].C), Const(w, 0), true
	}
	if t.Op == "bvadd" {
		a, b := t.Args[0], t.Args[1]
		if a.Op != "bvshl" {
			a, b = b, a
		}
		if a.Op == "bvshl" && a.Args[1].Op == "c" && a.Args[1].C > 0 && a.Args[1].C < 64 && ubound(b, 0) < (uint64(1)<<a.Args[1].C) {
			return a, int(a.Args[1].C), b, true
		}
	}
	return nil, 0, nil, false
}

func lbound(t *Term) uint64 {
	if t.Op == "c" {
		return t.C
	}
	return 0
}

func Not(a *Term) *Term {
	if a.Op == "b" {
		return BoolC(a.C == 0)
	}
	if a.Op == "not" {
		return a.Args[0]
	}
	return mk(&Term{Op: "not", S: BoolS, Args: []*Term{a}})
}
func And(a, b *Term) *Term {
	if a.IsFalse() || b.IsFalse() {
		return BoolC(false)
	}
	if a.IsTrue() {
		return b
	}
	if b.IsTrue() {
		return a
	}
	if a == b {
		return a
	}
	if (a.Op == "not" && a.Args[0] == b) || (b.Op == "not" && b.Args[0] == a) {
		return BoolC(false)
	}
	return mk(&Term{Op: "and", S: BoolS, Args: []*Term{a, b}})
}
func Or(a, b *Term) *Term      { return Not(And(Not(a), Not(b))) }
func Implies(a, b *Term) *Term { return Or(Not(a), b) }
func Ite(c, a, b *Term) *Term {
	if c.IsTrue() {
		return a
	}
	if c.IsFalse() {
		return b
	}
	if a == b {
		return a
	}
	if a.S != b.S {
		panic(fmt.Sprintf("Ite: sort mismatch %v %v", a.S, b.S))
	}
	if a.S.W == 0 && a.S.AW == 0 {
		// boolean ite
		if a.IsTrue() && b.IsFalse() {
			return c
		}
		if a.IsFalse() && b.IsTrue() {
			return Not(c)
		}
		if a.IsTrue() {
			return Or(c, b)
		}
		if a.IsFalse() {
			return And(Not(c), b)
		}
		if b.IsTrue() {
			return Or(Not(c), a)
		}
		if b.IsFalse() {
			return And(c, a)
		}
	}
	if c.Op == "not" {
		return Ite(c.Args[0], b, a)
	}
	return mk(&Term{Op: "ite", S: a.S, Args: []*Term{c, a, b}})
}
func BvNot(a *Term) *Term {
	if a.Op == "c" {
		return Const(a.W(), ^a.C)
	}
	if a.Op == "bvnot" {
		return a.Args[0]
	}
	return mk(&Term{Op: "bvnot", S: a.S, Args: []*Term{a}})
}
func BvNeg(a *Term) *Term { return Bin("bvsub", Const(a.W(), 0), a) }

func Extract(hi, lo int, a *Term) *Term {
	w := hi - lo + 1
	if a.Op == "c" {
		return Const(w, a.C>>uint(lo))
	}
	if lo == 0 && w == a.W() {
		return a
	}
	if a.Op == "zext" {
		iw := a.Args[0].W()
		if hi < iw {
			return Extract(hi, lo, a.Args[0])
		}
		if lo >= iw {
			return Const(w, 0)
		}
		if lo == 0 {
			return ZExt(w, a.Args[0])
		}
	}
	if a.Op == "extract" {
		return Extract(hi+a.P2, lo+a.P2, a.Args[0])
	}
	if a.Op == "concat" {
		lw := a.Args[1].W()
		if hi < lw {
			return Extract(hi, lo, a.Args[1])
		}
		if lo >= lw {
			return Extract(hi-lw, lo-lw, a.Args[0])
		}
	}
	if a.Op == "ite" && (a.Args[1].Op == "c" || a.Args[2].Op == "c") {
		return Ite(a.Args[0], Extract(hi, lo, a.Args[1]), Extract(hi, lo, a.Args[2]))
	}
	// extract of shl by const: the window lies in the zero fill, or shifts down
	if a.Op == "bvshl" && a.Args[1].Op == "c" {
		k := int(a.Args[1].C)
		if hi < k {
			return Const(w, 0)
		}
		if lo >= k {
			return Extract(hi-k, lo-k, a.Args[0])
		}
	}
	// bitwise operators commute with extract at any position (kept only when a side simplifies)
	if lo != 0 && (a.Op == "bvand" || a.Op == "bvor" || a.Op == "bvxor") {
		x, y := Extract(hi, lo, a.Args[0]), Extract(hi, lo, a.Args[1])
		if x.Op != "extract" || y.Op != "extract" {
			return Bin(a.Op, x, y)
		}
	}
	// extract of lshr by const: shift the window
	if a.Op == "bvlshr" && a.Args[1].Op == "c" {
		k := int(a.Args[1].C)
		if hi+k < a.W() {
			return Extract(hi+k, lo+k, a.Args[0])
		}
	}
	if lo == 0 && (a.Op == "bvand" || a.Op == "bvor" || a.Op == "bvxor" || a.Op == "bvadd" || a.Op == "bvsub" || a.Op == "bvmul") {
		// low bits only depend on low bits
		x, y := Extract(hi, 0, a.Args[0]), Extract(hi, 0, a.Args[1])
		if x.Op != "extract" || y.Op != "extract" || a.Args[1].Op == "c" {
			return Bin(a.Op, x, y)
		}
	}
	return mk(&Term{Op: "extract", S: BV(w), Args: []*Term{a}, P1: hi, P2: lo})
}
func ZExt(to int, a *Term) *Term {
	if to == a.W() {
		return a
	}
	if to < a.W() {
		return Extract(to-1, 0, a)
	}
	if a.Op == "c" {
		return Const(to, a.C)
	}
	if a.Op == "zext" {
		return ZExt(to, a.Args[0])
	}
	if a.Op == "ite" && a.Args[1].Op == "c" && a.Args[2].Op == "c" {
		return Ite(a.Args[0], Const(to, a.Args[1].C), Const(to, a.Args[2].C))
	}
	return mk(&Term{Op: "zext", S: BV(to), Args: []*Term{a}, P1: to - a.W()})
}
func SExt(to int, a *Term) *Term {
	if to == a.W() {
		return a
	}
	if a.Op == "c" {
		return Const(to, uint64(sext64(a.C, a.W())))
	}
	return mk(&Term{Op: "sext", S: BV(to), Args: []*Term{a}, P1: to - a.W()})
}
func Concat(hi, lo *Term) *Term {
	if hi.Op == "c" && lo.Op == "c" && hi.W()+lo.W() <= 64 {
		return Const(hi.W()+lo.W(), hi.C<<uint(lo.W())|lo.C)
	}
	if hi.Op == "c" && hi.C == 0 {
		return ZExt(hi.W()+lo.W(), lo)
	}
	// concat(extract(h..m+1,x), extract(m..l,x)) = extract(h..l,x)
	if hi.Op == "extract" && lo.Op == "extract" && hi.Args[0] == lo.Args[0] && hi.P2 == lo.P1+1 {
		return Extract(hi.P1, lo.P2, hi.Args[0])
	}
	// concat(extract(h..m+1,x), x') where x' = extract(m..0,x) simplified to narrower x (zext case)
	if hi.W()+lo.W() > 64 {
		panic("concat wider than 64")
	}
	return mk(&Term{Op: "concat", S: BV(hi.W() + lo.W()), Args: []*Term{hi, lo}})
}
func Select(a, i *Term) *Term {
	for a.Op == "store" || a.Op == "rangestore" {
		if a.Op == "rangestore" {
			lo, hi := a.Args[1].C, a.Args[2].C
			if i.Op == "c" {
				if i.C >= lo && i.C <= hi {
					return a.Args2
				}
				a = a.Args[0]
				continue
			}
			in := And(Cmp("bvule", a.Args[1], i), Cmp("bvule", i, a.Args[2]))
			return Ite(in, a.Args2, Select(a.Args[0], i))
		}
		si := a.Args[1]
		if si == i {
			return a.Args[2]
		}
		if si.Op == "c" && i.Op == "c" {
			a = a.Args[0]
			continue
		}
		break
	}
	if a.Op == "constarr" || a.Op == "constarr2" {
		return a.Args[0]
	}
	if a.Op == "ite" && i.Op == "c" {
		// a read at a concrete index distributes over a conditional array
		return Ite(a.Args[0], Select(a.Args[1], i), Select(a.Args[2], i))
	}
	if i.Op != "c" && a.Op == "store" && !a.S.A2 {
		if t := selectConstChain(a, i); t != nil {
			return t
		}
	}
	if a.S.A2 {
		return mk(&Term{Op: "select", S: Arr(int(a.S.AW)), Args: []*Term{a, i}})
	}
	return mk(&Term{Op: "select", S: BV(int(a.S.AW)), Args: []*Term{a, i}})
}
// selectConstChain: a is store(...store(constarr(d), c1, v1)..., cn, vn) with all ci, vi, d constants
// (a concrete table, e.g. a bitmap block written by mkfs). A read at a symbolic index becomes a balanced
// ite tree over the runs of equal values instead of a select over a long store chain.
var constChainCache sync.Map // term id -> *constChain (nil entry = not a constant chain)

type constChain struct {
	runs    []ccRun // sorted by start; value of index x = run with largest start <= x
	ew      int
	baseArr *Term
}
type ccRun struct {
	start uint64
	val   uint64
	t     *Term // non-constant stored value
	base  bool  // reads the base array
}

func selectConstChain(a, i *Term) *Term {
	var cc *constChain
	if v, ok := constChainCache.Load(a.id); ok {
		cc, _ = v.(*constChain)
		if cc == nil {
			return nil
		}
	} else {
		cc = buildConstChain(a)
		if cc == nil {
			constChainCache.Store(a.id, (*constChain)(nil))
			return nil
		}
		constChainCache.Store(a.id, cc)
	}
	var build func(lo, hi int) *Term
	build = func(lo, hi int) *Term {
		if lo == hi {
			r := cc.runs[lo]
			if r.t != nil {
				return r.t
			}
			if r.base {
				if cc.baseArr.Op == "store" {
					return mk(&Term{Op: "select", S: BV(cc.ew), Args: []*Term{cc.baseArr, i}})
				}
				return Select(cc.baseArr, i)
			}
			return Const(cc.ew, r.val)
		}
		mid := (lo + hi + 1) / 2
		return Ite(Cmp("bvult", i, c64(cc.runs[mid].start)), build(lo, mid-1), build(mid, hi))
	}
	return build(0, len(cc.runs)-1)
}

// buildConstChain analyses store(...store(B, c1, v1)..., cn, vn) with constant indices: the indices
// are grouped into runs of equal value; indices not stored to read the base B (a constant array or
// any other array term).
func buildConstChain(a *Term) *constChain {
	vals := map[uint64]*Term{}
	n := 0
	t := a
	for t.Op == "store" && t.Args[1].Op == "c" {
		if _, ok := vals[t.Args[1].C]; !ok {
			vals[t.Args[1].C] = t.Args[2]
		}
		t = t.Args[0]
		n++
	}
	if n < 16 {
		return nil
	}
	cc := &constChain{ew: int(a.S.AW), baseArr: t}
	var defT *Term
	if t.Op == "constarr" {
		defT = t.Args[0]
	}
	keys := make([]uint64, 0, len(vals))
	for k := range vals {
		keys = append(keys, k)
	}
	sort.Slice(keys, func(x, y int) bool { return keys[x] < keys[y] })
	mkRun := func(start uint64, v *Term) ccRun {
		if v == nil {
			if defT != nil {
				if defT.Op == "c" {
					return ccRun{start: start, val: defT.C}
				}
				return ccRun{start: start, t: defT}
			}
			return ccRun{start: start, base: true}
		}
		if v.Op == "c" {
			return ccRun{start: start, val: v.C}
		}
		return ccRun{start: start, t: v}
	}
	same := func(r ccRun, v *Term) bool {
		x := mkRun(0, v)
		return r.val == x.val && r.t == x.t && r.base == x.base
	}
	cc.runs = append(cc.runs, mkRun(0, nil))
	next := uint64(0)
	for _, k := range keys {
		if k > next && !same(cc.runs[len(cc.runs)-1], nil) {
			cc.runs = append(cc.runs, mkRun(next, nil))
		}
		if !same(cc.runs[len(cc.runs)-1], vals[k]) {
			if k == 0 {
				cc.runs[0] = mkRun(0, vals[k])
			} else {
				cc.runs = append(cc.runs, mkRun(k, vals[k]))
			}
		}
		next = k + 1
	}
	if next != 0 && !same(cc.runs[len(cc.runs)-1], nil) {
		cc.runs = append(cc.runs, mkRun(next, nil))
	}
	if len(cc.runs) > 200 {
		return nil
	}
	return cc
}

func Store(a, i, v *Term) *Term {
	// overwrite of the same index
	if a.Op == "store" && a.Args[1] == i {
		return Store(a.Args[0], i, v)
	}
	return mk(&Term{Op: "store", S: a.S, Args: []*Term{a, i, v}})
}
// RangeStore: base with indices lo..hi (constants, inclusive) all set to v.
func RangeStore(base *Term, lo, hi uint64, v *Term) *Term {
	return mk(&Term{Op: "rangestore", S: base.S, Args: []*Term{base, c64(lo), c64(hi)}, Args2: v})
}

func ConstArr(ew int, v *Term) *Term {
	return mk(&Term{Op: "constarr", S: Arr(ew), Args: []*Term{v}})
}

// ---- SMT printing: every shared node gets a define-fun
type printer struct {
	expandRange bool
	sb       *strings.Builder
	named    map[int32]string
	decl     map[string]bool
	newIds   []int32
	newDecls []string
}

func (p *printer) ref(t *Term) string {
	if n, ok := p.named[t.id]; ok {
		return n
	}
	var s string
	switch t.Op {
	case "c":
		return fmt.Sprintf("(_ bv%d %d)", t.C, t.S.W)
	case "b":
		if t.C == 1 {
			return "true"
		}
		return "false"
	case "v":
		if !p.decl[t.Name] {
			p.decl[t.Name] = true
			p.newDecls = append(p.newDecls, t.Name)
			fmt.Fprintf(p.sb, "(declare-const |%s| %s)\n", t.Name, t.S.smt())
		}
		return "|" + t.Name + "|"
	case "extract":
		s = fmt.Sprintf("((_ extract %d %d) %s)", t.P1, t.P2, p.ref(t.Args[0]))
	case "zext":
		s = fmt.Sprintf("((_ zero_extend %d) %s)", t.P1, p.ref(t.Args[0]))
	case "sext":
		s = fmt.Sprintf("((_ sign_extend %d) %s)", t.P1, p.ref(t.Args[0]))
	case "constarr", "constarr2":
		s = fmt.Sprintf("((as const %s) %s)", t.S.smt(), p.ref(t.Args[0]))
	case "rangestore":
		if p.expandRange {
			cur := p.ref(t.Args[0])
			v := p.ref(t.Args2)
			for k := t.Args[1].C; k <= t.Args[2].C; k++ {
				n := fmt.Sprintf("t%d_%d", t.id, k)
				fmt.Fprintf(p.sb, "(define-fun %s () %s (store %s (_ bv%d 64) %s))\n", n, t.S.smt(), cur, k, v)
				cur = n
			}
			p.named[t.id] = cur
			return cur
		}
		s = fmt.Sprintf("(lambda ((li (_ BitVec 64))) (ite (and (bvule %s li) (bvule li %s)) %s (select %s li)))",
			p.ref(t.Args[1]), p.ref(t.Args[2]), p.ref(t.Args2), p.ref(t.Args[0]))
	default:
		parts := make([]string, 0, 4)
		parts = append(parts, t.Op)
		for _, a := range t.Args {
			parts = append(parts, p.ref(a))
		}
		s = "(" + strings.Join(parts, " ") + ")"
	}
	n := fmt.Sprintf("t%d", t.id)
	fmt.Fprintf(p.sb, "(define-fun %s () %s %s)\n", n, t.S.smt(), s)
	p.named[t.id] = n
	p.newIds = append(p.newIds, t.id)
	return n
}

// String renders a term compactly (for samples / debugging).
func (t *Term) String() string {
	var sb strings.Builder
	t.str(&sb, 0)
	return sb.String()
}

func (t *Term) str(sb *strings.Builder, d int) {
	if d > 6 {
		sb.WriteString("…")
		return
	}
	switch t.Op {
	case "c":
		fmt.Fprintf(sb, "%#x", t.C)
	case "b":
		fmt.Fprintf(sb, "%v", t.C == 1)
	case "v":
		sb.WriteString(t.Name)
	case "extract":
		fmt.Fprintf(sb, "ext[%d:%d](", t.P1, t.P2)
		t.Args[0].str(sb, d+1)
		sb.WriteString(")")
	default:
		sb.WriteString("(" + t.Op)
		for _, a := range t.Args {
			sb.WriteString(" ")
			a.str(sb, d+1)
		}
		sb.WriteString(")")
	}
}

func collectVars(t *Term, seen map[int32]bool, out map[string]*Term) {
	if seen[t.id] {
		return
	}
	seen[t.id] = true
	if t.Op == "v" {
		out[t.Name] = t
	}
	for _, a := range t.Args {
		collectVars(a, seen, out)
	}
	if t.Args2 != nil {
		collectVars(t.Args2, seen, out)
	}
}

func sortedVarNames(m map[string]*Term) []string {
	var ks []string
	for k := range m {
		ks = append(ks, k)
	}
	sort.Strings(ks)
	return ks
}
