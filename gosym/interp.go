package main

import (
	"fmt"
	"io"
	"os"
	"go/constant"
	"go/token"
	"go/types"
	"sort"
	"strings"
	"sync"
	"time"

	"golang.org/x/tools/go/ssa"
)

// dec is one recorded nondeterministic decision of a path.
type dec struct {
	kind   uint8  // 0 branch, 1 choose, 2 recorded value
	val    uint32 // alternative index (branch: 0 = true, 1 = false)
	n      uint32 // number of alternatives
	forced bool   // this worker will not try other alternatives
	two    bool   // branch had both sides feasible (needs asserting on a fresh solver)
	uv     uint64 // recorded value (kind 2)
	lvl    int    // solver depth before this decision (local bookkeeping)
}

type pathEnd struct {
	kind string // ok, panic, infeasible, unwind, unsupported, unknown, blocked, oom
	msg  string
}

type Violation struct {
	Harness string            `json:"harness"`
	Kind    string            `json:"kind"` // assert | panic | blocked | oom | unwind
	Label   string            `json:"label"`
	Site    string            `json:"site,omitempty"`
	Model   map[string]string `json:"model"`
	Disks   map[string]map[string]string `json:"disks,omitempty"` // disk id -> blkno -> hex
	Choices []uint64          `json:"choices,omitempty"`
	Events  []string          `json:"events,omitempty"`
	Known   string            `json:"known,omitempty"`
	Path    int               `json:"path"`
	Covers  []string          `json:"covers,omitempty"`
}

// Config of one harness run.
type Config struct {
	Unwind    int           // max visits of a block per frame
	MaxSteps  int           // max instructions per path
	MaxPaths  int           // stop after this many paths (reported as truncated)
	Lmax      int           // string compare unrolling
	Workers   int
	SolverBin string
	TimeoutMs int
	NoMerge   bool
	Deadline  time.Time
	KnownIDs  map[string]bool // active known-finding ids
	Params    map[string]uint64
}

// Result aggregates a harness run (shared by workers).
type Result struct {
	mu         sync.Mutex
	Harness    string
	Paths      int
	Outcomes   map[string]int
	Sites      map[string]int
	Viol       []Violation
	violSeen   map[string]bool
	violCount  map[string]int
	Covers     map[string]int
	Funcs      map[string]int
	Asserts    map[string]int // label -> times discharged (unsat)
	KnownHit   map[string]int
	Queries    int
	Unknown    int
	SolverTime time.Duration
	MaxQuery   time.Duration
	Merged     int
	Truncated  bool
	Samples    []string
	Witnesses  []Violation
	Wall       time.Duration
	QSites     map[string][3]float64
}

type job struct{ prefix []dec }

var debugStatus = os.Getenv("GOSYM_DEBUG") != ""
var profileSites = os.Getenv("GOSYM_PROFILE") != ""

type runShared struct {
	prog   *ssa.Program
	fn     *ssa.Function
	cfg    *Config
	res    *Result
	mu     sync.Mutex
	cond   *sync.Cond
	queue  []job
	idle   int
	done   bool
	nwork  int
	stubs  map[string]stubFn
	pathNo int
}

type stubFn = func(e *Engine, fn *ssa.Function, args []Value) Value

type Engine struct {
	sh     *runShared
	prog   *ssa.Program
	sol    *Solver
	cfg    *Config
	prefix []dec
	trace  []dec
	pos    int
	fresh  bool // job from the queue: solver was reset, re-assert while replaying
	base   int  // decisions below base are never flipped by this worker
	dirty  bool // PC has unverified assumptions
	// per-path state
	freshCnt map[string]int
	inputs   []*inputRec
	globals  map[*ssa.Global]Loc
	uniq     map[int32]*Term
	lb, ub   map[int32]uint64
	twoVal   map[int32][2]uint64
	excluded map[int32]uint64
	hooks    map[string][]*ClosureV
	prehooks map[string][]*ClosureV
	spawned  []*ClosureV
	world    *World
	steps    int
	depth    int
	cur      string
	curFn    *ssa.Function
	stack    []*ssa.Function
	choices  []uint64
	pathCovers []string
	merged   int
	funcs    map[string]int
	initDone map[*ssa.Package]bool
	initPkg  []*ssa.Package
}

type inputRec struct {
	name string
	t    *Term // scalar var or array var
	n    *Term // for arrays: length term
	ew   int
}

type frame struct {
	fn     *ssa.Function
	env    map[ssa.Value]Value
	defers []func()
	visits map[*ssa.BasicBlock]int
}

func (e *Engine) end(kind, msg string) { panic(pathEnd{kind, msg}) }

func (e *Engine) live() bool { return e.pos >= len(e.prefix) }

// freshVar creates a named symbolic scalar. Names are "<name>#<k>" with k counting per name.
func (e *Engine) freshVar(name string, s Sort) *Term {
	k := e.freshCnt[name]
	e.freshCnt[name] = k + 1
	t := Var(fmt.Sprintf("%s#%d", name, k), s)
	if !s.IsArr() {
		e.inputs = append(e.inputs, &inputRec{name: t.Name, t: t})
	}
	return t
}

func (e *Engine) freshArr(name string, ew int, n *Term) *Term {
	k := e.freshCnt[name]
	e.freshCnt[name] = k + 1
	t := Var(fmt.Sprintf("%s#%d", name, k), Arr(ew))
	e.inputs = append(e.inputs, &inputRec{name: t.Name, t: t, n: n, ew: ew})
	return t
}

func (e *Engine) query(c *Term) string {
	if !e.cfg.Deadline.IsZero() && time.Now().After(e.cfg.Deadline) {
		e.sh.res.mu.Lock()
		e.sh.res.Truncated = true
		e.sh.res.mu.Unlock()
		e.end("budget", "time budget of the harness exhausted")
	}
	var r string
	if !e.dirty {
		// the path condition is known to be satisfiable: slice by shared variables
		r = e.sol.CheckSliced(c)
	} else {
		r = e.sol.CheckWith(c)
	}
	if r != "sat" && r != "unsat" {
		// one more attempt: after an indefinite answer the solver process has been replaced and the
		// assertion stack replayed (Solver.Check), so a transient cause (a dropped command, a loaded
		// machine) does not make the path inconclusive
		r = e.sol.CheckWith(c)
	}
	if r != "sat" && r != "unsat" {
		e.end("unknown", "solver: "+r+" at "+e.cur)
	}
	return r
}

// decide forks on a symbolic condition.
func (e *Engine) decide(c *Term) bool {
	v := e.decide0(c)
	if !c.IsConst() {
		e.intervalLearn(c, v)
	}
	return v
}

func (e *Engine) decide0(c *Term) bool {
	if c.IsTrue() {
		return true
	}
	if c.IsFalse() {
		return false
	}
	shortcut := false
	var scVal bool
	if c2 := e.substUniq(c, 0); c2 != c && c2.IsConst() {
		shortcut, scVal = true, c2.IsTrue()
	} else if v, ok := e.intervalDecide(c); ok {
		shortcut, scVal = true, v
	}

	if e.pos < len(e.prefix) {
		d := e.prefix[e.pos]
		if d.kind != 0 {
			panic(fmt.Sprintf("replay mismatch: expected branch at %d (%s), got kind %d", e.pos, e.cur, d.kind))
		}
		isFlip := !e.fresh && e.pos == len(e.prefix)-1
		e.pos++
		v := d.val == 0
		if e.fresh {
			d.lvl = e.sol.Depth()
		}
		if e.fresh {
			if d.two {
				if v {
					e.sol.Assert(c)
				} else {
					e.sol.Assert(Not(c))
				}
			}
		} else if isFlip {
			e.sol.Push()
			if v {
				e.sol.Assert(c)
			} else {
				e.sol.Assert(Not(c))
			}
		}
		e.trace = append(e.trace, d)
		if !d.two && !shortcut {
			e.learnUnique(c)
		}
		return v
	}
	if shortcut {
		// the path condition already forces this outcome
		e.pos++
		val := uint32(1)
		if scVal {
			val = 0
		}
		e.trace = append(e.trace, dec{kind: 0, val: val, n: 2, forced: true, lvl: e.sol.Depth()})
		return scVal
	}
	t0q := time.Now()
	q0 := e.sol.Queries
	t := e.query(c) == "sat"
	f := true
	if t || e.dirty {
		f = e.query(Not(c)) == "sat"
	}
	e.pos++
	if profileSites {
		res := e.sh.res
		res.mu.Lock()
		st := res.QSites[e.cur]
		st[0] += float64(e.sol.Queries - q0)
		st[1] += time.Since(t0q).Seconds()
		if t && f {
			st[2]++
		}
		res.QSites[e.cur] = st
		res.mu.Unlock()
	}
	switch {
	case t && f:
		e.dirty = false
		if e.sh.hungry() {
			// donate the false side
			p := make([]dec, len(e.trace), len(e.trace)+1)
			copy(p, e.trace)
			for i := range p {
				p[i].forced = true
			}
			p = append(p, dec{kind: 0, val: 1, n: 2, forced: true, two: true})
			e.sh.put(job{prefix: p})
			e.sol.Assert(c)
			e.trace = append(e.trace, dec{kind: 0, val: 0, n: 2, forced: true, two: true, lvl: e.sol.Depth()})
			return true
		}
		lvl := e.sol.Depth()
		e.sol.Push()
		e.sol.Assert(c)
		e.trace = append(e.trace, dec{kind: 0, val: 0, n: 2, two: true, lvl: lvl})
		return true
	case t:
		e.dirty = false
		e.trace = append(e.trace, dec{kind: 0, val: 0, n: 2, forced: true, lvl: e.sol.Depth()})
		e.learnUnique(c)
		return true
	case f:
		e.dirty = false
		e.trace = append(e.trace, dec{kind: 0, val: 1, n: 2, forced: true, lvl: e.sol.Depth()})
		e.learnUnique(c)
		return false
	}
	e.end("infeasible", "")
	return false
}

// choose forks over n concrete alternatives and returns the index taken.
func (e *Engine) choose(n int) int {
	if n <= 1 {
		return 0
	}
	if e.pos < len(e.prefix) {
		d := e.prefix[e.pos]
		if d.kind != 1 {
			panic("replay mismatch: expected choose")
		}
		isFlip := !e.fresh && e.pos == len(e.prefix)-1
		e.pos++
		if e.fresh {
			d.lvl = e.sol.Depth()
		}
		if isFlip {
			e.sol.Push()
		}
		e.trace = append(e.trace, d)
		return int(d.val)
	}
	e.pos++
	if e.sh.hungry() || e.sh.cfg.Workers > 1 && len(e.trace) < 3 {
		// donate all other alternatives
		for k := 1; k < n; k++ {
			p := make([]dec, len(e.trace), len(e.trace)+1)
			copy(p, e.trace)
			for i := range p {
				p[i].forced = true
			}
			p = append(p, dec{kind: 1, val: uint32(k), n: uint32(n), forced: true})
			e.sh.put(job{prefix: p})
		}
		e.trace = append(e.trace, dec{kind: 1, val: 0, n: uint32(n), forced: true, lvl: e.sol.Depth()})
		return 0
	}
	lvl := e.sol.Depth()
	e.sol.Push()
	e.trace = append(e.trace, dec{kind: 1, val: 0, n: uint32(n), lvl: lvl})
	return 0
}

// record memoises a solver-dependent value so that replays reproduce it.
func (e *Engine) record(compute func() uint64) uint64 {
	if e.pos < len(e.prefix) {
		d := e.prefix[e.pos]
		if d.kind != 2 {
			panic("replay mismatch: expected recorded value at " + e.cur)
		}
		e.pos++
		if e.fresh {
			d.lvl = e.sol.Depth()
		}
		e.trace = append(e.trace, d)
		return d.uv
	}
	v := compute()
	e.pos++
	e.trace = append(e.trace, dec{kind: 2, forced: true, uv: v, lvl: e.sol.Depth()})
	return v
}

func (e *Engine) Assume(c *Term) {
	if c.IsTrue() {
		return
	}
	if !e.live() {
		if e.fresh {
			e.sol.Assert(c)
		}
		e.intervalLearn(c, true)
		return
	}
	if c.IsFalse() {
		e.end("infeasible", "assume false")
	}
	e.sol.Assert(c)
	e.dirty = true
	e.intervalLearn(c, true)
	if profileSites {
		res := e.sh.res
		res.mu.Lock()
		st := res.QSites["assume@"+e.cur]
		st[0]++
		res.QSites["assume@"+e.cur] = st
		res.mu.Unlock()
	}
}

// ensureFeasible confirms that the current path condition is satisfiable.
func (e *Engine) ensureFeasible() {
	if !e.live() || !e.dirty {
		return
	}
	t0f := time.Now()
	r := e.sol.Check()
	if profileSites {
		res := e.sh.res
		res.mu.Lock()
		st := res.QSites["feasible@"+e.cur]
		st[0]++
		st[1] += time.Since(t0f).Seconds()
		res.QSites["feasible@"+e.cur] = st
		res.mu.Unlock()
	}
	if r != "sat" && r != "unsat" {
		r = e.sol.Check()
	}
	if r == "unsat" {
		e.end("infeasible", "assume")
	}
	if r != "sat" {
		e.end("unknown", "solver: "+r+" (feasibility) at "+e.cur)
	}
	e.dirty = false
}

// Assert checks a property obligation. known/excuse: an active known finding excuses models satisfying excuse.
func (e *Engine) Assert(c *Term, label string, known string, excuse *Term) {
	if !e.live() {
		if e.fresh {
			e.sol.Assert(c)
		}
		return
	}
	res := e.sh.res
	if c.IsTrue() {
		res.mu.Lock()
		res.Asserts[label]++
		res.mu.Unlock()
		return
	}
	e.ensureFeasible()
	active := known != "" && e.cfg.KnownIDs[known]
	bad := Not(c)
	if active {
		// does the known finding manifest?
		if e.query(And(bad, excuse)) == "sat" {
			res.mu.Lock()
			res.KnownHit[known]++
			res.mu.Unlock()
		}
		bad = And(bad, Not(excuse))
	}
	t0a := time.Now()
	r := e.query(bad)
	if profileSites {
		res.mu.Lock()
		st := res.QSites["assert:"+label]
		st[0]++
		st[1] += time.Since(t0a).Seconds()
		res.QSites["assert:"+label] = st
		res.mu.Unlock()
	}
	if r == "sat" {
		v := e.extractModel(bad)
		v.Kind, v.Label, v.Site = "assert", label, e.cur
		e.sh.addViol(v)
	} else {
		res.mu.Lock()
		res.Asserts[label]++
		res.mu.Unlock()
		if !active {
			// PC is satisfiable and entails c: adding c keeps it satisfiable, no feasibility check needed
			e.sol.Assert(c)
			e.intervalLearn(c, true)
			return
		}
	}
	// continue under the assertion
	e.Assume(c)
}

// extractModel gets a concrete assignment of all inputs under PC ∧ extra.
func (e *Engine) extractModel(extra *Term) Violation {
	v := Violation{Harness: e.sh.res.Harness, Model: map[string]string{}, Path: e.sh.pathNo}
	s := e.sol
	s.Push()
	defer s.Pop()
	s.Assert(extra)
	if r := s.Check(); r != "sat" {
		v.Model["_modelcheck"] = r
		if os.Getenv("GOSYM_DEBUG") != "" {
			str := extra.String()
			if len(str) > 400 {
				str = str[:400]
			}
			fmt.Fprintf(os.Stderr, "MODELCHECK %s dirty=%v sliced=%d depth=%d extra=%s\n", r, e.dirty, e.sol.Sliced, e.sol.Depth(), str)
		}
		return v
	}
	// scalars and array lengths first
	var ts []*Term
	for _, in := range e.inputs {
		if in.n == nil {
			ts = append(ts, in.t)
		} else {
			ts = append(ts, in.n)
		}
	}
	var blkTerms []*Term
	var blkDisk []*SymDisk
	if e.world != nil {
		for _, d := range e.world.disks {
			for _, b := range d.reads {
				blkTerms = append(blkTerms, b)
				blkDisk = append(blkDisk, d)
			}
		}
	}
	ts = append(ts, blkTerms...)
	vals := s.Values(ts)
	for i, in := range e.inputs {
		if in.n == nil {
			v.Model[in.name] = fmt.Sprintf("%d", vals[i])
		}
	}
	// arrays
	for i, in := range e.inputs {
		if in.n == nil {
			continue
		}
		n := vals[i]
		if n > 8192 {
			n = 8192
		}
		els := make([]*Term, n)
		for k := uint64(0); k < n; k++ {
			els[k] = Select(in.t, c64(k))
		}
		ev := s.Values(els)
		if in.ew == 8 {
			b := make([]byte, n)
			for k := range b {
				b[k] = byte(ev[k])
			}
			v.Model[in.name] = fmt.Sprintf("hex:%x", b)
		} else {
			var parts []string
			for k := range ev {
				parts = append(parts, fmt.Sprintf("%d", ev[k]))
			}
			v.Model[in.name] = "words:" + strings.Join(parts, ",")
		}
	}
	// disk blocks
	if len(blkTerms) > 0 {
		v.Disks = map[string]map[string]string{}
		off := len(e.inputs)
		done := map[string]bool{}
		for i, bt := range blkTerms {
			d := blkDisk[i]
			bn := vals[off+i]
			key := fmt.Sprintf("%s/%d", d.name, bn)
			if done[key] {
				continue
			}
			done[key] = true
			blk := Select(d.init, c64(bn))
			els := make([]*Term, 4096)
			for k := range els {
				els[k] = Select(blk, c64(uint64(k)))
			}
			ev := s.Values(els)
			b := make([]byte, 4096)
			for k := range b {
				b[k] = byte(ev[k])
			}
			if v.Disks[d.name] == nil {
				v.Disks[d.name] = map[string]string{}
			}
			v.Disks[d.name][fmt.Sprintf("%d", bn)] = compressHex(b)
			_ = bt
		}
	}
	v.Choices = append([]uint64{}, e.choices...)
	if e.world != nil {
		v.Events = append([]string{}, e.world.eventStrings()...)
	}
	return v
}

// compressHex encodes a block as hex with run-length for zero tails: "hex" or "hex..z<n>"
func compressHex(b []byte) string {
	n := len(b)
	for n > 0 && b[n-1] == 0 {
		n--
	}
	return fmt.Sprintf("%x", b[:n])
}

func (sh *runShared) addViol(v Violation) {
	sh.res.mu.Lock()
	defer sh.res.mu.Unlock()
	key := v.Kind + "|" + v.Label + "|" + v.Site
	// distinct Choose prefixes (e.g. the procedure under test) are distinct findings, up to 12 per label
	ck := key
	for i, c := range v.Choices {
		if i >= 2 {
			break
		}
		ck += fmt.Sprintf("|%d", c)
	}
	if sh.res.violSeen[ck] || sh.res.violCount[key] >= 12 {
		return
	}
	sh.res.violSeen[ck] = true
	sh.res.violCount[key]++
	sh.res.Viol = append(sh.res.Viol, v)
}

func (sh *runShared) hungry() bool {
	if sh.cfg.Workers <= 1 {
		return false
	}
	sh.mu.Lock()
	h := sh.idle > 0 && len(sh.queue) < sh.idle
	sh.mu.Unlock()
	return h
}

func (sh *runShared) put(j job) {
	sh.mu.Lock()
	sh.queue = append(sh.queue, j)
	sh.cond.Signal()
	sh.mu.Unlock()
}

// get blocks until a job is available or all workers are idle (finished).
func (sh *runShared) get() (job, bool) {
	sh.mu.Lock()
	defer sh.mu.Unlock()
	sh.idle++
	for len(sh.queue) == 0 && !sh.done {
		if sh.idle == sh.nwork {
			sh.done = true
			sh.cond.Broadcast()
			return job{}, false
		}
		sh.cond.Wait()
	}
	if sh.done && len(sh.queue) == 0 {
		return job{}, false
	}
	j := sh.queue[len(sh.queue)-1]
	sh.queue = sh.queue[:len(sh.queue)-1]
	sh.idle--
	return j, true
}

// RunHarness explores all paths of fn with cfg.Workers workers.
func RunHarness(prog *ssa.Program, fn *ssa.Function, name string, cfg *Config) *Result {
	res := &Result{Harness: name, Outcomes: map[string]int{}, Sites: map[string]int{}, Covers: map[string]int{},
		Funcs: map[string]int{}, Asserts: map[string]int{}, KnownHit: map[string]int{}, violSeen: map[string]bool{}, violCount: map[string]int{}, QSites: map[string][3]float64{}}
	sh := &runShared{prog: prog, fn: fn, cfg: cfg, res: res, stubs: allStubs()}
	sh.cond = sync.NewCond(&sh.mu)
	sh.nwork = cfg.Workers
	if sh.nwork < 1 {
		sh.nwork = 1
	}
	sh.queue = []job{{}}
	t0 := time.Now()
	var wg sync.WaitGroup
	engines := make([]*Engine, sh.nwork)
	stopStatus := make(chan bool)
	if debugStatus {
		go func() {
			for {
				select {
				case <-stopStatus:
					return
				case <-time.After(5 * time.Second):
					res.mu.Lock()
					fmt.Fprintf(os.Stderr, "  [%s %.0fs] paths=%d outcomes=%v queue=%d\n", name, time.Since(t0).Seconds(), res.Paths, res.Outcomes, len(sh.queue))
					res.mu.Unlock()
					for i, e := range engines {
						if e != nil && e.sol != nil {
							fmt.Fprintf(os.Stderr, "     w%d q=%d solver=%.1fs at %s depth=%d steps=%d trace=%d\n", i, e.sol.Queries, e.sol.Time.Seconds(), e.cur, e.depth, e.steps, len(e.trace))
						}
					}
				}
			}
		}()
	}
	for w := 0; w < sh.nwork; w++ {
		wg.Add(1)
		w := w
		go func() {
			defer wg.Done()
			e := &Engine{sh: sh, prog: prog, cfg: cfg}
			engines[w] = e
			var lg io.Writer
			if w == 0 && os.Getenv("GOSYM_SMTLOG") != "" {
				f, _ := os.Create(os.Getenv("GOSYM_SMTLOG"))
				lg = f
			}
			e.sol = NewSolver(cfg.SolverBin, cfg.TimeoutMs, lg)
			defer func() {
				res.mu.Lock()
				res.Queries += e.sol.Queries
				res.Unknown += e.sol.Unknown
				res.SolverTime += e.sol.Time
				if e.sol.MaxQ > res.MaxQuery {
					res.MaxQuery = e.sol.MaxQ
				}
				res.Merged += e.merged
				res.mu.Unlock()
				e.sol.Close()
			}()
			for {
				j, ok := sh.get()
				if !ok {
					return
				}
				e.exploreSubtree(j.prefix)
			}
		}()
	}
	wg.Wait()
	close(stopStatus)
	res.Wall = time.Since(t0)
	if profileSites {
		type kv struct {
			k string
			v [3]float64
		}
		var l []kv
		for k, v := range res.QSites {
			l = append(l, kv{k, v})
		}
		sort.Slice(l, func(i, j int) bool { return l[i].v[1]+l[i].v[0]/1e6 > l[j].v[1]+l[j].v[0]/1e6 })
		for i, x := range l {
			if i >= 60 {
				break
			}
			fmt.Fprintf(os.Stderr, "   site %-50s queries=%6.0f time=%7.1fs forks=%5.0f\n", x.k, x.v[0], x.v[1], x.v[2])
		}
	}
	return res
}

func (e *Engine) stopRequested() bool {
	sh := e.sh
	sh.res.mu.Lock()
	defer sh.res.mu.Unlock()
	if sh.cfg.MaxPaths > 0 && sh.res.Paths >= sh.cfg.MaxPaths {
		sh.res.Truncated = true
		return true
	}
	if !sh.cfg.Deadline.IsZero() && time.Now().After(sh.cfg.Deadline) {
		sh.res.Truncated = true
		return true
	}
	return false
}

// exploreSubtree runs DFS below the given prefix.
func (e *Engine) exploreSubtree(prefix []dec) {
	e.sol.Reset()
	e.prefix = prefix
	e.base = len(prefix)
	e.fresh = true
	for {
		if e.stopRequested() {
			return
		}
		out := e.runOnce()
		e.finishPath(out)
		// backtrack
		i := len(e.trace) - 1
		for i >= e.base {
			d := e.trace[i]
			if !d.forced && d.val+1 < d.n {
				break
			}
			i--
		}
		if i < e.base {
			return
		}
		e.sol.PopTo(e.trace[i].lvl)
		np := make([]dec, i+1)
		copy(np, e.trace[:i+1])
		np[i].val++
		e.prefix = np
		e.fresh = false
	}
}

func (e *Engine) finishPath(out pathEnd) {
	res := e.sh.res
	feasible := true
	if out.kind != "ok" && out.kind != "infeasible" && out.kind != "unknown" {
		// confirm feasibility of abnormal endings before reporting
		func() {
			defer func() {
				if r := recover(); r != nil {
					if pe, ok := r.(pathEnd); ok {
						if pe.kind == "infeasible" {
							feasible = false
						} else {
							out = pe
						}
						return
					}
					panic(r)
				}
			}()
			e.ensureFeasible()
		}()
	}
	if !feasible {
		out = pathEnd{"infeasible", ""}
	}
	res.mu.Lock()
	res.Paths++
	e.sh.pathNo = res.Paths
	res.Outcomes[out.kind]++
	for f, n := range e.funcs {
		if n > res.Funcs[f] {
			res.Funcs[f] = n
		}
	}
	if out.kind != "ok" && out.kind != "infeasible" {
		k := out.kind + ": " + out.msg
		if out.kind == "unknown" {
			k += fmt.Sprintf(" choices=%v", e.choices)
		}
		res.Sites[k]++
	}
	if len(res.Samples) < 3 && out.kind == "ok" {
		res.Samples = append(res.Samples, e.sampleString())
	}
	// witnesses: the first two passing paths, and up to four more that reach a set of cover points no
	// earlier witness reached (so that the native validation sees every kind of outcome of the harness)
	ckey := strings.Join(e.pathCovers, ",")
	newCovers := true
	for _, w0 := range res.Witnesses {
		if strings.Join(w0.Covers, ",") == ckey {
			newCovers = false
		}
	}
	wantWitness := out.kind == "ok" && (len(res.Witnesses) < 2 || (newCovers && len(res.Witnesses) < 6)) && e.live()
	res.mu.Unlock()
	if wantWitness {
		// a concrete instance of this passing path, replayed natively by the driver (translator validation)
		w := e.extractModel(BoolC(true))
		if len(w.Model) > 0 || len(e.inputs) == 0 {
			w.Kind, w.Label = "witness", "passing path"
			w.Covers = append([]string{}, e.pathCovers...)
			res.mu.Lock()
			if len(res.Witnesses) < 6 {
				res.Witnesses = append(res.Witnesses, w)
			}
			res.mu.Unlock()
		}
	}
	switch out.kind {
	case "panic", "blocked", "oom", "unwind":
		if out.kind == "unwind" && e.cfg.Params["unwind_is_violation"] != 1 {
			return
		}
		if e.live() {
			known := ""
			// known findings on abnormal endings are matched by site
			for id := range e.cfg.KnownIDs {
				if strings.HasPrefix(id, "site:") && strings.Contains(out.msg, strings.TrimPrefix(id, "site:")) {
					known = id
				}
			}
			if known != "" {
				res.mu.Lock()
				res.KnownHit[known]++
				res.mu.Unlock()
				return
			}
			v := e.extractModel(BoolC(true))
			v.Kind, v.Label, v.Site = out.kind, out.msg, e.cur
			e.sh.addViol(v)
		}
	}
}

func (e *Engine) sampleString() string {
	var parts []string
	for _, d := range e.trace {
		switch d.kind {
		case 0:
			if d.two {
				if d.val == 0 {
					parts = append(parts, "T")
				} else {
					parts = append(parts, "F")
				}
			}
		case 1:
			parts = append(parts, fmt.Sprintf("c%d", d.val))
		}
	}
	s := strings.Join(parts, "")
	if len(s) > 200 {
		s = s[:200] + "…"
	}
	ev := ""
	if e.world != nil {
		ev = strings.Join(e.world.eventStrings(), ",")
		if len(ev) > 300 {
			ev = ev[:300] + "…"
		}
	}
	return fmt.Sprintf("decisions=%s events=[%s] inputs=%d", s, ev, len(e.inputs))
}

func (e *Engine) runOnce() (out pathEnd) {
	e.trace = e.trace[:0]
	e.pos = 0
	// the satisfiability of the replayed prefix is not known: a previous run may have ended (at a Choose
	// fork, say) before any assumption of the prefix was checked
	e.dirty = true
	e.freshCnt = map[string]int{}
	e.inputs = nil
	e.uniq = map[int32]*Term{}
	e.twoVal = map[int32][2]uint64{}
	e.excluded = map[int32]uint64{}
	e.lb = map[int32]uint64{}
	e.ub = map[int32]uint64{}
	e.globals = map[*ssa.Global]Loc{}
	e.hooks = map[string][]*ClosureV{}
	e.prehooks = map[string][]*ClosureV{}
	e.spawned = nil
	e.world = newWorld()
	e.steps = 0
	e.depth = 0
	e.choices = nil
	e.pathCovers = nil
	e.funcs = map[string]int{}
	e.stack = nil
	e.initDone = nil
	e.initPkg = nil
	defer func() {
		if r := recover(); r != nil {
			if pe, ok := r.(pathEnd); ok {
				out = pe
				return
			}
			panic(fmt.Sprintf("engine failure in harness %s at %s: %v", e.sh.res.Harness, e.cur, r))
		}
	}()
	e.call(e.sh.fn, nil)
	e.ensureFeasible()
	return pathEnd{"ok", ""}
}

func (e *Engine) global(g *ssa.Global) Loc {
	if l, ok := e.globals[g]; ok {
		return l
	}
	l := newLoc(g.Type().(*types.Pointer).Elem())
	e.globals[g] = l
	e.initGlobal(g, l)
	return l
}

func (e *Engine) constValue(c *ssa.Const) Value {
	t := c.Type()
	if c.Value == nil {
		return zeroValue(t)
	}
	switch u := t.Underlying().(type) {
	case *types.Basic:
		switch {
		case u.Info()&types.IsBoolean != 0:
			return BoolC(constant.BoolVal(c.Value))
		case u.Info()&types.IsString != 0:
			return strConst(constant.StringVal(c.Value))
		case u.Info()&types.IsInteger != 0:
			w, _ := isScalar(t)
			if v, ok := constant.Uint64Val(constant.ToInt(c.Value)); ok {
				return Const(w, v)
			}
			v, _ := constant.Int64Val(constant.ToInt(c.Value))
			return Const(w, uint64(v))
		case u.Info()&types.IsFloat != 0:
			return Const(64, 0)
		}
	}
	panic(fmt.Sprintf("const %v : %v", c, t))
}

func strConst(s string) StrV {
	a := ZeroSArr(8)
	for i := 0; i < len(s); i++ {
		a.ov[uint64(i)] = Const(8, uint64(s[i]))
	}
	return StrV{a: a, off: c64(0), len: c64(uint64(len(s)))}
}

func (e *Engine) get(fr *frame, v ssa.Value) Value {
	switch x := v.(type) {
	case *ssa.Const:
		return e.constValue(x)
	case *ssa.Global:
		return Ptr{loc: e.global(x)}
	case *ssa.Function:
		return &ClosureV{fn: x}
	case *ssa.Builtin:
		return x
	}
	r, ok := fr.env[v]
	if !ok {
		panic(fmt.Sprintf("no value for %s in %s", v.Name(), fr.fn))
	}
	return r
}

func (e *Engine) call(fn *ssa.Function, args []Value) Value { return e.callF(fn, args, nil) }

func (e *Engine) callF(fn *ssa.Function, args []Value, free []Value) Value {
	name := fn.String()
	if st, ok := e.sh.stubs[name]; ok {
		return st(e, fn, args)
	}
	if fn.Name() == "init" && len(args) == 0 && len(e.initPkg) > 0 && fn.Pkg != e.initPkg[len(e.initPkg)-1] {
		return nil // dependency initialisers are run lazily, on first access to one of their globals
	}
	if fn.Blocks == nil {
		// try generic origin (instantiated generics) by name prefix
		if st, ok := e.sh.stubs[genericBase(name)]; ok {
			return st(e, fn, args)
		}
		e.end("unsupported", "no body: "+name)
	}
	if hs, ok := e.prehooks[name]; ok {
		for _, h := range hs {
			k := len(h.fn.Params)
			e.callF(h.fn, args[:k], h.env)
		}
	}
	r := e.callBody(fn, args, free)
	if hs, ok := e.hooks[name]; ok {
		for _, h := range hs {
			e.runHook(h, args, r)
		}
	}
	return r
}

func genericBase(n string) string {
	if i := strings.Index(n, "["); i >= 0 {
		return n[:i]
	}
	return n
}

// runHook calls hook(args..., results...) trimmed to the hook's arity (results first priority:
// a hook with k params receives the last k of args++results).
func (e *Engine) runHook(h *ClosureV, args []Value, r Value) {
	all := append([]Value{}, args...)
	if t, ok := r.(TupleV); ok {
		all = append(all, t...)
	} else if r != nil {
		all = append(all, r)
	}
	k := len(h.fn.Params)
	if k > len(all) {
		panic("hook arity")
	}
	e.callF(h.fn, all[len(all)-k:], h.env)
}

func (e *Engine) callBody(fn *ssa.Function, args []Value, free []Value) Value {
	name := fn.String()
	e.funcs[name] = len(fn.Blocks)
	e.depth++
	if e.depth > 120 {
		e.end("unwind", "call depth > 120 in "+name)
	}
	e.stack = append(e.stack, fn)
	defer func() { e.depth--; e.stack = e.stack[:len(e.stack)-1] }()
	fr := &frame{fn: fn, env: map[ssa.Value]Value{}, visits: map[*ssa.BasicBlock]int{}}
	for i, p := range fn.Params {
		fr.env[p] = args[i]
	}
	for i, fv := range fn.FreeVars {
		fr.env[fv] = free[i]
	}
	var prev *ssa.BasicBlock
	blk := fn.Blocks[0]
	merged, skipPhis := false, false
	for {
		fr.visits[blk]++
		if fr.visits[blk] > e.cfg.Unwind {
			e.end("unwind", fmt.Sprintf("loop bound %d exceeded in %s (block %d)", e.cfg.Unwind, fn, blk.Index))
		}
		var next *ssa.BasicBlock
		// phis are evaluated simultaneously
		if !skipPhis {
			var phiVals []Value
			var phis []*ssa.Phi
			for _, in := range blk.Instrs {
				x, ok := in.(*ssa.Phi)
				if !ok {
					break
				}
				for i, p := range blk.Preds {
					if p == prev {
						phiVals = append(phiVals, e.get(fr, x.Edges[i]))
						phis = append(phis, x)
						break
					}
				}
			}
			for i, p := range phis {
				fr.env[p] = phiVals[i]
			}
		}
		for _, in := range blk.Instrs {
			e.steps++
			if e.steps > e.cfg.MaxSteps {
				e.end("unwind", fmt.Sprintf("step bound %d exceeded in %s", e.cfg.MaxSteps, fn))
			}
			if p := in.Pos(); p != token.NoPos {
				e.cur = e.pos2(p, fn)
			}
			e.curFn = fn
			switch x := in.(type) {
			case *ssa.Phi:
				continue
			case *ssa.Jump:
				next = blk.Succs[0]
			case *ssa.If:
				c := e.get(fr, x.Cond).(*Term)
				if !c.IsConst() && !e.cfg.NoMerge {
					if j, ok := e.mergeIf(fr, blk, c, 0); ok {
						next = j
						merged = true
						break
					}
				}
				if e.decide(c) {
					next = blk.Succs[0]
				} else {
					next = blk.Succs[1]
				}
			case *ssa.Return:
				e.runDefers(fr)
				switch len(x.Results) {
				case 0:
					return nil
				case 1:
					return e.get(fr, x.Results[0])
				}
				t := make(TupleV, len(x.Results))
				for i, r := range x.Results {
					t[i] = e.get(fr, r)
				}
				return t
			case *ssa.RunDefers:
				e.runDefers(fr)
			case *ssa.Panic:
				e.end("panic", fmt.Sprintf("explicit panic at %s", e.pos2(x.Pos(), fn)))
			case *ssa.Defer:
				fv, args := e.prepCall(fr, &x.Call)
				cc := &x.Call
				fr.defers = append(fr.defers, func() { e.invoke(fr, fv, args, cc) })
			case *ssa.Go:
				fv, args := e.prepCall(fr, &x.Call)
				if c, ok := fv.(*ClosureV); ok && len(args) == 0 {
					e.spawned = append(e.spawned, c)
				} else if c, ok := fv.(*ClosureV); ok {
					// wrap with bound args
					cl := c
					a := args
					e.spawned = append(e.spawned, &ClosureV{fn: cl.fn, env: cl.env, bound: a})
				}
				e.world.event(Event{Kind: EvGo, Site: e.cur})
			case *ssa.Store:
				p := e.get(fr, x.Addr).(Ptr)
				if p.loc == nil {
					e.end("panic", "nil dereference (store) at "+e.pos2(x.Pos(), fn))
				}
				p.loc.Store(e.get(fr, x.Val))
			case *ssa.MapUpdate:
				e.mapUpdate(e.get(fr, x.Map).(MapV), e.get(fr, x.Key), e.get(fr, x.Value))
			case *ssa.DebugRef:
			case ssa.Value:
				fr.env[x] = e.eval(fr, x)
			default:
				panic(fmt.Sprintf("instr %T", in))
			}
			if next != nil {
				break
			}
		}
		prev, blk = blk, next
		skipPhis = merged
		merged = false
	}
}

func (e *Engine) runDefers(fr *frame) {
	for i := len(fr.defers) - 1; i >= 0; i-- {
		fr.defers[i]()
	}
	fr.defers = nil
}

func (e *Engine) pos2(p token.Pos, fn *ssa.Function) string {
	if p == token.NoPos {
		return fn.String()
	}
	ps := e.prog.Fset.Position(p)
	f := ps.Filename
	if i := strings.LastIndex(f, "/"); i >= 0 {
		if j := strings.LastIndex(f[:i], "/"); j >= 0 {
			f = f[j+1:]
		}
	}
	return fmt.Sprintf("%s:%d", f, ps.Line)
}

func (e *Engine) prepCall(fr *frame, c *ssa.CallCommon) (Value, []Value) {
	var args []Value
	for _, a := range c.Args {
		args = append(args, e.get(fr, a))
	}
	return e.get(fr, c.Value), args
}

func (e *Engine) invoke(fr *frame, fv Value, args []Value, c *ssa.CallCommon) Value {
	if c.IsInvoke() {
		iv := fv.(IfaceV)
		if iv.t == nil {
			e.end("panic", "nil interface method call "+c.Method.Name()+" at "+e.cur)
		}
		ms := e.prog.MethodSets.MethodSet(iv.t)
		sel := ms.Lookup(c.Method.Pkg(), c.Method.Name())
		if sel == nil {
			panic("method not found " + c.Method.Name())
		}
		m := e.prog.MethodValue(sel)
		return e.call(m, append([]Value{iv.v}, args...))
	}
	switch f := fv.(type) {
	case *ssa.Builtin:
		return e.builtin(fr, f, args, c)
	case *ClosureV:
		if f == nil {
			e.end("panic", "nil func call at "+e.cur)
		}
		if f.bound != nil {
			args = append(append([]Value{}, f.bound...), args...)
		}
		return e.callF(f.fn, args, f.env)
	}
	panic(fmt.Sprintf("invoke %T", fv))
}

func sortedKeys(m map[string]int) []string {
	var ks []string
	for k := range m {
		ks = append(ks, k)
	}
	sort.Strings(ks)
	return ks
}

// substUniq rewrites t using values the path condition is known to force (e.uniq).
func (e *Engine) substUniq(t *Term, depth int) *Term {
	if t.IsConst() || len(e.uniq) == 0 {
		return t
	}
	if u, ok := e.uniq[t.id]; ok && u.Op == "c" {
		return u
	}
	if depth >= 4 || len(t.Args) == 0 || t.S.IsArr() {
		return t
	}
	changed := false
	var args [3]*Term
	for i, a := range t.Args {
		if a.S.IsArr() {
			args[i] = a
			continue
		}
		args[i] = e.substUniq(a, depth+1)
		if args[i] != a {
			changed = true
		}
	}
	if !changed {
		return t
	}
	switch t.Op {
	case "not":
		return Not(args[0])
	case "and":
		return And(args[0], args[1])
	case "ite":
		return Ite(args[0], args[1], args[2])
	case "=", "bvult", "bvule", "bvslt", "bvsle":
		return Cmp(t.Op, args[0], args[1])
	case "extract":
		return Extract(t.P1, t.P2, args[0])
	case "zext":
		return ZExt(t.W(), args[0])
	case "sext":
		return SExt(t.W(), args[0])
	case "concat":
		return Concat(args[0], args[1])
	case "bvnot":
		return BvNot(args[0])
	case "select":
		return Select(args[0], args[1])
	case "bvadd", "bvsub", "bvmul", "bvand", "bvor", "bvxor", "bvudiv", "bvurem", "bvsdiv", "bvsrem", "bvshl", "bvlshr", "bvashr":
		return Bin(t.Op, args[0], args[1])
	}
	return t
}

// learnUnique is called after a forced decision on c: if c compares a term with a constant, find out
// whether the path condition pins that term to a single value (cached; saves queries in loops).
func (e *Engine) learnUnique(c *Term) {
	if c.Op == "not" {
		c = c.Args[0]
	}
	switch c.Op {
	case "=", "bvult", "bvule":
	default:
		return
	}
	a, b := c.Args[0], c.Args[1]
	var x *Term
	if a.Op == "c" && b.Op != "c" {
		x = b
	} else if b.Op == "c" && a.Op != "c" {
		x = a
	} else {
		return
	}
	if x.S.W <= 0 {
		return
	}
	if _, ok := e.uniq[x.id]; ok {
		return
	}
	e.uniqueValue(x)
}

// cmpConst decomposes c into (x op k) with k constant: returns x, k, and a normalised relation:
// "lt": x < k, "le": x <= k, "gt": x > k, "ge": x >= k, "eq": x == k; neg is applied by the caller.
func cmpConst(c *Term) (x *Term, k uint64, rel string, ok bool) {
	switch c.Op {
	case "bvult":
		a, b := c.Args[0], c.Args[1]
		if b.Op == "c" && a.Op != "c" {
			return a, b.C, "lt", true
		}
		if a.Op == "c" && b.Op != "c" {
			return b, a.C, "gt", true
		}
	case "bvule":
		a, b := c.Args[0], c.Args[1]
		if b.Op == "c" && a.Op != "c" {
			return a, b.C, "le", true
		}
		if a.Op == "c" && b.Op != "c" {
			return b, a.C, "ge", true
		}
	case "=":
		a, b := c.Args[0], c.Args[1]
		if a.S.W <= 0 {
			return nil, 0, "", false
		}
		if b.Op == "c" && a.Op != "c" {
			return a, b.C, "eq", true
		}
		if a.Op == "c" && b.Op != "c" {
			return b, a.C, "eq", true
		}
	}
	return nil, 0, "", false
}

func (e *Engine) bounds(x *Term) (uint64, uint64) { return e.boundsD(x, 0) }

// boundsD computes an interval for x from bounds learnt on this path, compositionally.
func (e *Engine) boundsD(x *Term, d int) (uint64, uint64) {
	w := x.W()
	full := mask(w)
	if x.Op == "c" {
		return x.C, x.C
	}
	lo, hi := uint64(0), full
	if d < 6 {
		switch x.Op {
		case "zext":
			lo, hi = e.boundsD(x.Args[0], d+1)
		case "bvadd":
			al, ah := e.boundsD(x.Args[0], d+1)
			bl, bh := e.boundsD(x.Args[1], d+1)
			if ah+bh >= ah && ah+bh <= full {
				lo, hi = al+bl, ah+bh
			}
		case "bvshl":
			if x.Args[1].Op == "c" && x.Args[1].C < 64 {
				k := x.Args[1].C
				al, ah := e.boundsD(x.Args[0], d+1)
				if ah <= full>>k {
					lo, hi = al<<k, ah<<k
				}
			}
		case "bvlshr":
			if x.Args[1].Op == "c" && x.Args[1].C < 64 {
				k := x.Args[1].C
				al, ah := e.boundsD(x.Args[0], d+1)
				lo, hi = al>>k, ah>>k
			}
		case "bvand":
			_, ah := e.boundsD(x.Args[0], d+1)
			_, bh := e.boundsD(x.Args[1], d+1)
			hi = ah
			if bh < hi {
				hi = bh
			}
		case "bvmul":
			al, ah := e.boundsD(x.Args[0], d+1)
			bl, bh := e.boundsD(x.Args[1], d+1)
			if ah == 0 || bh == 0 || ah <= full/bh {
				lo, hi = al*bl, ah*bh
			}
		case "ite":
			al, ah := e.boundsD(x.Args[1], d+1)
			bl, bh := e.boundsD(x.Args[2], d+1)
			lo, hi = al, ah
			if bl < lo {
				lo = bl
			}
			if bh > hi {
				hi = bh
			}
		case "extract":
			if x.P2 == 0 {
				al, ah := e.boundsD(x.Args[0], d+1)
				if ah <= full {
					lo, hi = al, ah
				}
			}
		}
	}
	if u := ubound(x, 0); u < hi {
		hi = u
	}
	if v, ok := e.lb[x.id]; ok && v > lo {
		lo = v
	}
	if v, ok := e.ub[x.id]; ok && v < hi {
		hi = v
	}
	return lo, hi
}

// intervalDecide answers comparisons with constants from bounds learnt on this path.
func (e *Engine) intervalDecide(c *Term) (bool, bool) {
	neg := false
	if c.Op == "not" {
		neg = true
		c = c.Args[0]
	}
	x, k, rel, ok := cmpConst(c)
	if !ok {
		// both sides symbolic: decide from disjoint intervals
		if (c.Op == "=" || c.Op == "bvult" || c.Op == "bvule") && c.Args[0].S.W > 0 {
			al, ah := e.bounds(c.Args[0])
			bl, bh := e.bounds(c.Args[1])
			var v, known bool
			switch c.Op {
			case "=":
				if ah < bl || bh < al {
					v, known = false, true
				}
			case "bvult":
				if ah < bl {
					v, known = true, true
				} else if al >= bh {
					v, known = false, true
				}
			case "bvule":
				if ah <= bl {
					v, known = true, true
				} else if al > bh {
					v, known = false, true
				}
			}
			if known {
				if neg {
					v = !v
				}
				return v, true
			}
		}
		return false, false
	}
	lo, hi := e.bounds(x)
	var v, known bool
	switch rel {
	case "lt":
		if hi < k {
			v, known = true, true
		} else if lo >= k {
			v, known = false, true
		}
	case "le":
		if hi <= k {
			v, known = true, true
		} else if lo > k {
			v, known = false, true
		}
	case "gt":
		if lo > k {
			v, known = true, true
		} else if hi <= k {
			v, known = false, true
		}
	case "ge":
		if lo >= k {
			v, known = true, true
		} else if hi < k {
			v, known = false, true
		}
	case "eq":
		if k < lo || k > hi {
			v, known = false, true
		} else if lo == hi {
			v, known = true, true
		}
	}
	if !known {
		return false, false
	}
	if neg {
		v = !v
	}
	return v, true
}

func (e *Engine) intervalLearn(c *Term, outcome bool) {
	if c.Op == "not" {
		outcome = !outcome
		c = c.Args[0]
	}
	if c.Op == "and" {
		if outcome {
			e.intervalLearn(c.Args[0], true)
			e.intervalLearn(c.Args[1], true)
		} else {
			// not(and(not(x = k1), not(x = k2))) is "x = k1 or x = k2": remember the two candidates
			a, b := c.Args[0], c.Args[1]
			if a.Op == "not" && b.Op == "not" && a.Args[0].Op == "=" && b.Args[0].Op == "=" {
				x1, k1, _, ok1 := cmpConst(a.Args[0])
				x2, k2, _, ok2 := cmpConst(b.Args[0])
				if ok1 && ok2 && x1 == x2 {
					e.twoVal[x1.id] = [2]uint64{k1, k2}
					if u, ok := e.excluded[x1.id]; ok {
						if u == k1 {
							e.uniq[x1.id] = Const(x1.W(), k2)
						} else if u == k2 {
							e.uniq[x1.id] = Const(x1.W(), k1)
						}
					}
				}
			}
		}
		return
	}
	x, k, rel, ok := cmpConst(c)
	if !ok {
		return
	}
	setLo := func(v uint64) {
		if cur, ok := e.lb[x.id]; !ok || v > cur {
			e.lb[x.id] = v
		}
	}
	setHi := func(v uint64) {
		if cur, ok := e.ub[x.id]; !ok || v < cur {
			e.ub[x.id] = v
		}
	}
	if !outcome {
		switch rel {
		case "lt":
			rel = "ge"
		case "le":
			rel = "gt"
		case "gt":
			rel = "le"
		case "ge":
			rel = "lt"
		case "eq":
			// x != k: if x is known to be one of two values, it is the other one
			e.excluded[x.id] = k
			if tv, ok := e.twoVal[x.id]; ok {
				if tv[0] == k {
					e.uniq[x.id] = Const(x.W(), tv[1])
				} else if tv[1] == k {
					e.uniq[x.id] = Const(x.W(), tv[0])
				}
			}
			return
		}
	}
	if rel == "eq" {
		e.uniq[x.id] = Const(x.W(), k)
	}
	switch rel {
	case "lt":
		if k > 0 {
			setHi(k - 1)
		}
	case "le":
		setHi(k)
	case "gt":
		if k < ^uint64(0) {
			setLo(k + 1)
		}
	case "ge":
		setLo(k)
	case "eq":
		setLo(k)
		setHi(k)
	}
}
