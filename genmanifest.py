#!/usr/bin/env python3
"""Regenerates MANIFEST.json from vplan.PROPS (claimed checks) + NOT_APPLICABLE."""
import json, os, sys
ROOT = os.path.dirname(os.path.abspath(__file__))
sys.path.insert(0, ROOT)
import vplan

ALL = ["C%02d" % i for i in range(1, 20)]
na = getattr(vplan, "NOT_APPLICABLE", {})
checks = []
for p in ALL:
    if p not in vplan.PROPS or vplan.PROPS[p].get("unclaimed"):
        continue
    s = vplan.PROPS[p]
    checks.append({
        "property_id": p,
        "quick_cmd": "./check %s quick" % p,
        "thorough_cmd": "./check %s thorough" % p,
        "evidence_file": "/verif/evidence/%s.json" % p,
        "replay_cmd_template": "./check --replay {path}",
        "engine": "gosym",
        "level_claimed": {"category": s["level"], "text": s["explanation"], "design_ref": "DESIGN.md §5 " + p},
        "level_note": "; ".join(s.get("assumptions", [])[:4]) or "see evidence.assumptions",
        "technique": s.get("technique", "bounded symbolic execution of the real Go code (go/ssa -> SMT-LIB bit-vectors/arrays), assertions decided by z3, counterexamples replayed natively"),
    })
m = {
    "version": 1,
    "setup_cmd": "./check --setup",
    "hooks": {"guard": "verif", "enable": "harness files are injected in-package by go/packages overlay (symbolic) and go test -overlay -tags verif (native replay); nothing is written into /repo",
              "baseline_off_cmd": "cd /repo && go build ./... && go test -vet=off -count=1 -timeout 25m ./...",
              "source_commits": [], "add_only": True},
    "engines": [{"name": "gosym", "path": "/verif/gosym", "serves_properties": [c["property_id"] for c in checks],
                 "kind_free_text": "path-forking symbolic executor for go/ssa (x/tools v0.29.0) emitting SMT-LIB2 (QF_ABV-style terms, no set-logic) to z3 5.1.0 (z3-new) over a pipe; native replay of models via go test -overlay"}],
    "checks": checks,
    "notes": "Exit 2 + 'INCONCLUSIVE' means solver unknown/timeout, unwinding bound hit, vacuous harness or non-reproducing model; it is never reported as success.",
    "not_applicable": [{"property_id": p, "reason": na.get(p, "no sound solver-based check built yet for this property (see DESIGN.md §9)")} for p in ALL if p not in [c["property_id"] for c in checks]],
}
json.dump(m, open(os.path.join(ROOT, "MANIFEST.json"), "w"), indent=1)
print("claimed:", [c["property_id"] for c in checks])
