"""Property -> harness plan table for ./check.

Each harness entry: fn (package-relative "pkg.Func"), covers (cover points that must be reached, vacuity
guard), q / t (parameter dictionaries for the quick / thorough tier; a missing dict means the harness is
not part of that tier), plus engine options (unwind, lmax, timeout_ms, budget_s).
"""
import os, subprocess, shutil

MOD = "github.com/mit-pdos/go-nfsd/"

COMMON_ASSUMPTIONS = [
    "bounded: every result holds only within the bounds listed under coverage.bounds; loops carry unwinding assertions",
    "gosym (this repository's SSA symbolic executor) implements Go semantics for the ~25 SSA instruction kinds used; validated by native replay of witnesses",
    "z3 5.1.0 (z3-new) answers are trusted; any (error / unknown / timeout makes the check inconclusive, never a pass",
    "formatting/logging (util.DPrintf, fmt, log) are no-ops; time.Now / NfstimeNow return arbitrary values",
]

JOURNAL = [
    "journal contract replaces wal.Walog.Read/MemAppend/Flush: Read = logical disk, MemAppend(<=511 blocks) applies all blocks atomically, Flush makes them durable (the documented jrnl/obj contract; obj, jrnl, buf run for real)",
    "allocator contract replaces alloc.allocBit: returns 0 or any number whose bit is clear and sets it (first-fit scan order abstracted)",
    "lock monitor replaces lockmap.Acquire/Release (single-threaded symbolic run; records order, detects re-acquisition)",
]


def H(fn, covers=("end",), q=None, t=None, **kw):
    d = {"fn": MOD + fn, "covers": list(covers), "q": q, "t": t}
    d.update(kw)
    return d


PROPS = {}

PROPS["C15"] = {
    "strict_witness": True,
    "level": "model_checking",
    "explanation": "bounded symbolic execution of super.MkFsSuper (all sizes < 2^40) and of the real mkfs path (makeFs/markAlloc) on listed sizes with a symbolic bit witness; assertions decided by z3",
    "assumptions": ["disk contract: a fresh disk reads as zeroes"],
    "outside": ["sizes >= 2^40 for the layout arithmetic", "mkfs bitmap contents for sizes not on the enumerated list (layout arithmetic still covers them)"],
    "harnesses": [
        H("super.VerifLayout", q={}, t={}),
        H("nfs.VerifMkfs", q={"quotients": 4, "dense": 0, "realalloc": 1}, t={"quotients": 8, "dense": 0, "realalloc": 1}, unwind=70000, max_steps=200000000, budget_s=600, budget_s_t=3000),
    ],
}

_STEPS_PLACEHOLDER_C10 = []
PROPS["C10"] = {
    "strict_witness": True,
    "level": "model_checking",
    "explanation": "symbolic round-trip of the inode, directory-entry and file-handle codecs on fully symbolic fields; cache/disk coherence after one symbolic RPC step",
    "assumptions": JOURNAL,
    "outside": ["histories longer than one warming operation (covered by induction over the coherence invariant)"],
    "harnesses": [
        H("inode.VerifInodeRoundTrip", q={}, t={}),
        H("fh.VerifFhRoundTrip", q={}, t={}),
    ] + _STEPS_PLACEHOLDER_C10,
}

PROPS["C06"] = {
    "level": "model_checking",
    "monitor_harnesses": ["VerifStep", "VerifC06LockInodes"],
    "explanation": "lock-acquisition order of lockInodes and of every RPC decided symbolically (ascending order => no cycle; no re-acquisition => no self-wait)",
    "assumptions": JOURNAL + ["termination under interference (fairness) is not decided"],
    "outside": ["real interleavings; fairness"],
    "harnesses": [
        H("nfs.VerifC06LockInodes", covers=("locked", "aborted"), q={"symaddr": 1, "slots": 1, "marked": 0, "zeroalloc": 0, "dirslots": 3, "disksz": 10000},
          t={"symaddr": 1, "slots": 3, "marked": 0, "zeroalloc": 0, "dirslots": 3, "disksz": 10000}, budget_s=300, budget_s_t=1500),
    ],
}


C11Q = {"unwind_is_violation": 1, "disksz": 10000, "dirslots": 3, "namecmp": 2, "bbytes": 2, "bblocks": 2, "inums": 2, "offsets": 1, "fixstable": 1, "zeroalloc": 0, "oneblock": 1}
C11T = {"unwind_is_violation": 1, "disksz": 10000, "dirslots": 3, "namecmp": 2, "bbytes": 2, "bblocks": 2, "inums": 2, "offsets": 1, "longnames": 1, "zeroalloc": 0, "fixstable": 1, "oneblock": 1}
# per-procedure bounds: objects that can be freed inline are small (sizeblocks) in the directory procedures
C11X = {n: {"sizeblocks": 1, "inums": 1, "namelens": 2, "pendingshrink": 0} for n in ["Create", "Mkdir", "Symlink", "Remove", "Rmdir", "Rename"]}
C11X["Setattr"] = {"inums": 1, "plainattrs": 1, "timeattrs": 0, "bblocks": 1, "offsets": 0}
C11X["Write"] = {"inums": 1, "offsets": 0, "bbytes": 1, "bblocks": 1}
C11XT = {n: {"sizeblocks": 1, "inums": 2, "namelens": 3, "pendingshrink": 1} for n in ["Create", "Mkdir", "Symlink", "Remove", "Rmdir", "Rename"]}
C11XT["Setattr"] = {"inums": 2, "plainattrs": 1, "timeattrs": 1, "bblocks": 1, "offsets": 0}
C11XT["Write"] = {"inums": 2, "offsets": 0, "bbytes": 2, "bblocks": 1}
PROPS["C11"] = {
    "level": "model_checking",
    "explanation": "every NFS/MOUNT procedure of nfs.Nfs executed symbolically on unconstrained arguments from an arbitrary valid file system; a feasible path ending in a Go panic, a >64MB allocation, a re-acquired lock or an exceeded loop bound is a violation",
    "assumptions": JOURNAL + ["pre-state satisfies the representation invariant Inv (DESIGN.md §4), instantiated at every inode/dirent the path decodes"],
    "outside": ["transfers of more than B_bytes per partial block / B_blocks blocks", "rfc1057 record marking and the TCP loop", "in-block inode slots other than R_slot in the quick tier"],
    "harnesses": [H("nfs.VerifC11" + n, covers=(), q=dict(C11Q, **C11X.get(n, {})), t=dict(C11T, **C11XT.get(n, {})), lmax=3, budget_s=300, budget_s_t=2400) for n in
                  ["Getattr", "Setattr", "Lookup", "Access", "Readlink", "Read", "Write", "Create", "Mkdir", "Symlink", "Mknod", "Remove",
                   "Rmdir", "Rename", "Link", "Readdir", "Readdirplus", "Fsstat", "Fsinfo", "Pathconf", "Commit", "Mount"]],
}


PROPS["C17"] = {
    "strict_witness": True,
    "level": "model_checking",
    "explanation": "each simple.Nfs procedure executed symbolically against the 30-files-of-4096-bytes specification on the same symbolic arguments and symbolic disk; replies and witness post-state compared; journal monitor for single durable append",
    "assumptions": JOURNAL + ["pre-state: inode i has Data = 514+i and Size <= 4096 (the invariant established by simple.Mkfs; preservation is asserted)"],
    "outside": ["more than B_bytes bytes moved per request", "real interleavings (lock discipline is checked instead)", "crash atomicity of the journal itself (C01)"],
    "harnesses": [
        H("simple.VerifSimpleGetattr", covers=("ok", "invalid", "root"), q={"bbytes": 2}, t={"bbytes": 6, "allinums": 1}),
        H("simple.VerifSimpleRead", covers=("data", "beyond", "invalid"), q={"bbytes": 2}, t={"bbytes": 6, "allinums": 1}),
        H("simple.VerifSimpleWrite", covers=("ok", "refused"), q={"bbytes": 2}, t={"bbytes": 6, "allinums": 1}),
        H("simple.VerifSimpleSetattr", covers=("ok", "toolarge", "invalid", "nosize"), q={"bbytes": 2}, t={"bbytes": 6, "allinums": 1}),
        H("simple.VerifSimpleOther", q={}, t={}),
        H("simple.VerifSimpleCommit", q={}, t={}),
    ],
}

PROPS["C18"] = {
    "strict_witness": True,
    "level": "model_checking",
    "explanation": "kvs.MultiPut/Get executed symbolically over the journal contract with symbolic keys (possibly equal) and symbolic 4096-byte values; single append, durable before return, last-writer-wins at a witness byte, Get returns it",
    "assumptions": JOURNAL,
    "outside": ["more than 3 pairs per MultiPut", "crash atomicity of the journal itself (C01)", "concurrent callers (the journal serialises them; assumed)"],
    "harnesses": [
        H("kvs.VerifKvsMultiPut", q={"pairs": 2}, t={"pairs": 3}),
        H("kvs.VerifKvsLarge", covers=("ok", "refused"), q={"disksz": 2000}, t={"disksz": 2000}),
    ],
}


def _xdr_types():
    import os
    f = os.path.join(os.path.dirname(os.path.abspath(__file__)), "work", "gen", "nfstypes", "h_xdr_gen.go.list")
    if os.path.exists(f):
        return [l.strip() for l in open(f) if l.strip()]
    return []


class _XdrHarnesses(list):
    """the per-type harness list depends on the types currently in /repo/nfstypes (generated file)"""
    def __iter__(self):
        base = [H("nfstypes.VerifXdrDispatch", q={}, t={}), H("nfstypes.VerifXdrFhBound", q={}, t={}),
                H("nfstypes.VerifXdrBounds", covers=("accepted", "refused", "end"), q={}, t={}, budget_s=300)]
        gen = [H("nfstypes.VerifXdr_" + n, covers=("end",), q={"xdrdepth": 1, "xdrlens": 2}, t={"xdrdepth": 1, "xdrlens": 4},
                 budget_s=120, budget_s_t=900) for n in _xdr_types()]
        return iter(base + gen)


PROPS["C16"] = {
    "strict_witness": True,
    "level": "model_checking",
    "genxdr": True,
    "explanation": "for every nfstypes type with an Xdr method (harness generated from the current source): a symbolic value is encoded by nfstypes and, converted field by field, by go-rpcgen's independent rfc1813 package; byte equality, round trip, cross decoding and truncation rejection are decided by z3; the 28 registrations are executed with a recording handler",
    "assumptions": ["go-rpcgen's rfc1813 package (generated from the RFC's .x file, a dependency outside /repo) is the reference layout", "the xdr runtime of go-rpcgen is executed for real"],
    "outside": ["strings/opaques longer than 5 bytes (representative lengths 0,3,4,5; handle bound 63/64/65 separately)", "lists and optional chains deeper than xdrdepth", "rfc1057 record marking"],
    "harnesses": _XdrHarnesses(),
}


STEPQ = {"disksz": 10000, "dirslots": 3, "namecmp": 2, "bbytes": 2, "bblocks": 1, "inums": 2, "offsets": 1, "zeroalloc": 0, "sizeblocks": 1,
         "namelens": 2, "pendingshrink": 0, "plainattrs": 1, "timeattrs": 0}
# thorough tier: the quick bounds widened where a run on the unchanged tree completed within the session
# (two directory/file handles incl. the root, three name lengths, pending shrinks, all boundary offsets of
# tier 1); wider settings (dirslots 4, inums 5, offsets 2, bbytes 4) were not validated and are not registered
STEPT = {"disksz": 10000, "dirslots": 3, "namecmp": 2, "bbytes": 2, "bblocks": 1, "inums": 2, "offsets": 1, "zeroalloc": 0, "sizeblocks": 1,
         "namelens": 3, "pendingshrink": 1, "plainattrs": 1, "timeattrs": 0}

PROPS["C08"] = {
    "level": "model_checking",
    "explanation": "every handle-taking procedure and handle position executed symbolically with a dead handle (free inode, or live inode of another generation) from an arbitrary valid state: the reply must be NFS3ERR_STALE with no journal append; generation step (free<->live bumps the generation, otherwise unchanged) and reply handles = (inum, generation) asserted in the mutating steps",
    "assumptions": JOURNAL + ["pre-state satisfies Inv (DESIGN.md §4)", "representative inode/block numbers (bound R_addr)"],
    "outside": ["2^64 wrap-around of the generation counter", "histories: covered by induction over the generation step"],
    "harnesses": [
        H("nfs.VerifC08Stale", q=STEPQ, t=STEPT, lmax=3, budget_s=300, budget_s_t=1500),
        H("nfs.VerifC08Handles", covers=("end", "lookup-ok", "create-ok", "crossed", "readdirplus-3"), q=dict(STEPQ, inums=1), t=STEPT, lmax=3, budget_s=300, budget_s_t=1500),
    ],
}


def _steps(flag, procs=(1, 2, 3, 4), extra_q=None, extra_t=None, covers_by=None, q_by=None, t_by=None):
    hs = []
    for k in procs:
        q = dict(STEPQ, inums=1, offsets=0, procs=k, **{flag: 1})
        t = dict(STEPT, offsets=0, procs=k, **{flag: 1})
        q.update(extra_q or {})
        q.update((q_by or {}).get(k, {}))
        t.update(extra_t or {})
        t.update((t_by or {}).get(k, {}))
        cv = ("ok", "err") + tuple((covers_by or {}).get(k, ()))
        hs.append(H("nfs.VerifStep", covers=cv, q=q, t=t, lmax=3, budget_s=400, budget_s_t=3000, tag="procs%d" % k))
    return hs


PROPS["C09"] = {
    "unclaimed": True,
    "level": "model_checking",
    "explanation": "every procedure executed symbolically from an arbitrary valid state; on every path whose reply is not NFS3_OK: no journal append, every allocated number handed back, no background work started, and every cached inode equal to the decoding of the (unchanged) logical disk",
    "assumptions": JOURNAL + ["pre-state satisfies Inv (DESIGN.md §4)", "representative inode/block numbers (bound R_addr)"],
    "outside": ["name-cache contents after a failed request are compared only through C10's lookup witness", "more than B_blocks blocks / B_bytes bytes per request"],
    "harnesses": _steps("p09", (1, 2, 3)),
}


PROPS["C10"]["harnesses"] += _steps("p10", (1, 2))
PROPS["C10"]["harnesses"].append(H("nfs.VerifC02Lookup", covers=("found", "absent", "last-slot", "end"), q=dict(STEPQ, inums=1, dirslots=32, nodirhook=1, sizeblocks=0), t=dict(STEPQ, inums=1, dirslots=32, nodirhook=1, sizeblocks=0), lmax=3, budget_s=600))
# restart equivalence: the data group only; the namespace group (procs=2) ended with solver unknowns in the
# second instance's LOOKUP (REMOVE/RMDIR, tracked third name) within 20 minutes and is not registered
PROPS["C10"]["harnesses"].append(H("nfs.VerifC10Restart", covers=("end", "byte"), q=dict(STEPQ, inums=1, offsets=0, procs=1, preentries=1, zeroalloc=1), t=dict(STEPQ, inums=1, offsets=0, procs=1, preentries=1, zeroalloc=1), lmax=3, budget_s=600, tag="restart1"))
PROPS["C10"]["explanation"] += "; restart equivalence: after one WRITE / SETATTR / READ (successful or failed) a second server instance started on the same disk answers GETATTR and a one-byte READ at a witness offset exactly as the running one"
PROPS["C10"]["explanation"] += "; a name cache rebuilt from disk (cold cache, as after a restart or an aborted request) answers LOOKUP exactly as the directory block does, on a full 32-slot directory with names of the maximum length"
PROPS["C10"]["strict_witness"] = False
PROPS["C09"].pop("unclaimed", None)
PROPS["C06"]["harnesses"] += _steps("p06", (1, 2, 3, 4))


PROPS["C03"] = {
    "level": "other",
    "monitor_harnesses": ["VerifStep", "VerifC03Revalidate"],
    "technique": "bounded symbolic execution of each RPC with lock/journal/access monitors; decides the sufficient condition (strict two-phase locking, replies built under the lock), not linearizability over schedules",
    "explanation": "sufficient condition only: every symbolic path of every RPC obeys strict two-phase locking (no lock acquired after a release within a transaction; every access to a cached inode, including the ones that build the reply, happens under that inode's lock). Schedules are not explored; the classical theorem strict 2PL + commit order => serializable is assumed.",
    "assumptions": JOURNAL + ["lockmap, allocator mutex and journal are linearizable themselves (dependency)", "theorem: strict two-phase locking implies serializability in commit order"],
    "outside": ["real goroutine interleavings", "the background shrinker racing with requests"],
    "harnesses": [H("nfs.VerifC03Revalidate", covers=("accepted", "refused"), q=dict(STEPQ, inums=2, namelens=2, namecmp=1), t=dict(STEPT, inums=2), lmax=3, budget_s=300, budget_s_t=1500)] + _steps("p03", (1, 2, 3, 4)),
}


PROPS["C13"] = {
    "level": "model_checking",
    "explanation": "the real READDIR / READDIRPLUS paging loop driven symbolically over a symbolic directory (any subset of slots empty) with an arbitrary size limit on every page; progress, increasing cookies, termination, exactly-once and membership asserted; READDIRPLUS handles/attributes are C08's harness",
    "assumptions": JOURNAL + ["pre-state satisfies Inv (DESIGN.md §4)", "directory of at most K_slots entries in one block", "no mutation between pages (entries never move: slot-stability is C04's obligation)"],
    "outside": ["directories spanning several blocks", "entries added/removed between pages"],
    "harnesses": [H("nfs.VerifC13Readdir", q=dict(STEPQ, inums=1, dirslots=4), t=dict(STEPT, inums=1, dirslots=5), lmax=3, budget_s=400, budget_s_t=2400)],
}

PROPS["C12"] = {
    "level": "model_checking",
    "explanation": "inductive step for the zero invariant I7: SETATTR(size), WRITE and REMOVE executed symbolically on a file in the direct-block range from a state satisfying I7; every block freed is all-zero on the logical disk and the bytes beyond the new size in the last block are zero (solver witnesses for the byte position)",
    "assumptions": JOURNAL + ["pre-state satisfies Inv incl. I7 (free blocks are zero: the block returned by the allocator is zero; tail of the last block is zero)"],
    "outside": ["files beyond the 8 direct blocks (index blocks are covered by the freed-block clause only)", "crash images (C01)"],
    "harnesses": [H("nfs.VerifC12Zero", covers=("ok", "freed", "tail", "err"), q=dict(STEPQ, inums=1, zeroalloc=1, sizeblocks=0, pendingshrink=1, sizes=1), t=dict(STEPT, zeroalloc=1, sizeblocks=0, sizes=2, inums=1), lmax=3, budget_s=400, budget_s_t=2400)],
}

PROPS["C19"] = {
    "level": "model_checking",
    "explanation": "the values announced by PATHCONF/FSINFO are taken from the replies and the guards of CREATE/MKDIR/SYMLINK and of RENAME's new name (name lengths name_max-1, name_max, name_max+1, 255), SETATTR and WRITE (sizes/offsets around maxfilesize and up to 2^64-1) are executed symbolically from an arbitrary valid state: at or below the limit the request is accepted (unless the allocator is exhausted) and reads back, above it is refused with no journal append",
    "assumptions": JOURNAL + ["pre-state satisfies Inv", "representative inode/block numbers (bound R_addr)"],
    "outside": ["whether a write of nearly wtmax bytes fits the journal (known finding K03 covers count = wtmax)"],
    "harnesses": [H("nfs.VerifC19Limits", covers=("name-ok", "rename-ok", "name-refused", "size-ok", "size-refused", "write-ok", "write-refused", "wtmax"),
                    q=dict(STEPQ, inums=1, namecmp=1), t=dict(STEPT, namecmp=1), lmax=2, budget_s=400, budget_s_t=2400)],
}

PROPS["C07"] = {
    "level": "model_checking",
    "explanation": "WRITE with every stability level and both settings of the server's unstable option, and WRITE(UNSTABLE);COMMIT, executed symbolically with the journal monitor: committed level not weaker than requested, anything above UNSTABLE durable before the reply, COMMIT flushes every earlier append, data readable at once; write verifier equal within an instance and different between two instances (clock contract: successive readings differ)",
    "assumptions": JOURNAL + ["time.Now returns distinct, increasing instants (clock contract)", "suffix-only loss of unflushed transactions is the journal's group-commit property (C01 K-harness / dependency)"],
    "outside": ["crash images of the journal itself", "more than two unstable writes before the COMMIT", "suffix-only loss of unflushed transactions in the memory log"],
    "harnesses": [H("nfs.VerifC07Write", covers=("stable", "unstable", "err"), q=dict(STEPQ, inums=1), t=STEPT, lmax=2, budget_s=300, budget_s_t=1200),
                  H("nfs.VerifC07Commit", covers=("end", "two-writes"), q=dict(STEPQ, inums=1), t=STEPT, lmax=2, budget_s=300, budget_s_t=1200)],
}

PROPS["C01"] = {
    "level": "model_checking",
    "monitor_harnesses": ["VerifStep"],
    "explanation": "compositional and bounded: (b) every RPC executed symbolically with the journal monitor makes at most one journal transaction, never writes the disk outside the journal, and replies OK (other than an UNSTABLE write) only after its transaction was flushed; (a) the real go-journal write-ahead log (Append / installBlocks+Advance / recoverCircular) executed symbolically against a recording disk with a symbolic crash point and lost-write mask recovers all-or-nothing and durably; (c) MakeNfs on a disk whose log holds a committed, uninstalled transaction",
    "assumptions": JOURNAL + ["block writes are atomic and writes before a barrier are durable (disk contract)", "composition of (a), (b), (c) into the end-to-end statement is argued in DESIGN.md, not checked"],
    "outside": ["more than 3 updates per group / 8 live log entries", "log positions >= 2^12", "histories (covered through the per-RPC induction)", "torn block writes"],
    "modfile": True,
    "harnesses": _steps("p01", (1, 2, 3, 4), t_by={k: {"inums": 1, "pendingshrink": 0, "namelens": 2} for k in (1, 2, 3, 4)}) + [
        H("nfs.VerifC01Recovery", q={"realwal": 1, "disksz": 10000}, t={"realwal": 1, "disksz": 10000}, budget_s=300),
        {"fn": "github.com/mit-pdos/go-journal/wal.VerifWalAppend", "covers": ["end", "durable"], "q": {"live": 2, "group": 2, "disksz": 2000, "noslice": 1}, "t": {"live": 2, "group": 2, "disksz": 2000, "noslice": 1}, "budget_s": 600, "budget_s_t": 3000, "timeout_ms": 120000},
        {"fn": "github.com/mit-pdos/go-journal/wal.VerifWalInstall", "covers": ["end", "nonempty"], "q": {"live": 2, "disksz": 2000, "noslice": 1}, "t": {"live": 2, "disksz": 2000, "noslice": 1}, "budget_s": 600, "budget_s_t": 3000, "timeout_ms": 120000},
    ],
}

PROPS["C14"] = {
    "level": "other",
    "monitor_harnesses": ["VerifStep", "VerifC14Background"],
    "technique": "bounded symbolic execution with a lockset monitor (Eraser-style discipline per shared object); decides a sufficient condition for race freedom, not the race detector's verdict over schedules",
    "explanation": "sufficient condition only: on every symbolic path of every RPC, of the shrinker thread, of shutdown/crash and of the statistics code, each access to a cached inode happens under that inode's lock, each access to the shrinker's counters, the inode cache's tables and the allocator's bitmap under their mutex, and the statistics counters only through sync/atomic",
    "assumptions": JOURNAL + ["go-journal's own threads (logger, installer) are race free (dependency)", "lockset discipline implies absence of data races on the monitored objects"],
    "outside": ["the Go race detector itself; races on objects that are not monitored", "real interleavings"],
    "harnesses": [H("nfs.VerifC14Background", covers=("shrinker", "crash", "stats"), q=dict(STEPQ, inums=1), t=STEPT, lmax=3, budget_s=300)] + _steps("p14", (1, 2, 3, 4)),
}


PROPS["C04"] = {
    "level": "model_checking",
    "explanation": "inductive step for the structural invariant: every mutating RPC executed symbolically from an arbitrary state satisfying Inv; on the logical disk after the request the same clauses are asserted for every inode the request can have touched (inode shape, pointer ownership and range, block and inode bitmaps, directory block shape, unique names, live children), and names and objects have moved together (created object named once, removed name gone and its object freed, renamed object named at the target only, '..' right)",
    "assumptions": JOURNAL + ["pre-state satisfies Inv (DESIGN.md §4) including bitmap agreement and link counts", "representative inode/block numbers (bound R_addr)", "crash states are states between transactions (C01)"],
    "outside": ["entries of indirect blocks (ownership/marking of blocks reached through index blocks)", "directories of more than K_slots entries", "global tree shape (cycles created by renaming a directory into its own subtree)", "states between the transactions of the background shrinker"],
    "harnesses": _steps("p04", (1, 2, 3), covers_by={2: ("w5-create", "w5-remove"), 3: ("w5-rename",)}, q_by={2: {"pendingshrink": 1}}, t_by={1: {"inums": 1, "pendingshrink": 0, "namelens": 2}, 2: {"inums": 1, "namelens": 2}, 3: {"inums": 1, "pendingshrink": 0, "namelens": 2}}) + [H("nfs.VerifC04Shrink", covers=("end",), q=dict(STEPQ, inums=1, bblocks=2, p04=1, sizeblocks=0), t=dict(STEPQ, inums=1, bblocks=2, p04=1, sizeblocks=0), lmax=3, budget_s=300, budget_s_t=1500)],
}

PROPS["C02"] = {
    "level": "model_checking",
    "explanation": "refinement step against a reference file system through the public procedures only: one mutating request (WRITE, SETATTR; CREATE, MKDIR, SYMLINK, REMOVE, RMDIR, RENAME) executed symbolically from an arbitrary valid state, bracketed by observing requests (GETATTR, READ of a witness byte; LOOKUP of a witness name, READLINK, GETATTR of the handles) whose replies must be what the reference (size + byte per offset; map name -> object) computes from the observation before and the arguments; failure exactly when the reference refuses (or the allocator is exhausted), and then no change",
    "assumptions": JOURNAL + ["pre-state satisfies Inv (DESIGN.md B.4) incl. I7 at the witness (a present byte at or beyond the size is zero; allocated blocks are zero)", "representative inode/block numbers and offsets (bound R_addr)", "histories: by induction over the step, given C04 (invariant preserved) - argued, not checked", "the eof flag is only required to be sound (eof => nothing follows), not eager"],
    "outside": ["sequences of more than one mutator (induction over the step)", "restarts (C10: cache = disk, C01 recovery)", "directories beyond K_slots entries, names longer than L_name", "witness offsets other than the representatives", "transfers of more than B_bytes bytes", "READDIR listings (C13 decides them against the directory block)"],
    "harnesses": [
        H("nfs.VerifC02Data", covers=("ok", "refused", "written", "kept", "gap", "end"), q=dict(STEPQ, inums=1, zeroalloc=1, offsets=0, wblks=2, preentries=1), t=dict(STEPQ, inums=1, zeroalloc=1, offsets=0, wblks=2, preentries=1), lmax=3, budget_s=600, budget_s_t=3000),
        H("nfs.VerifC02Lookup", covers=("found", "absent", "last-slot", "end"), q=dict(STEPQ, inums=1, dirslots=32, nodirhook=1, sizeblocks=0), t=dict(STEPQ, inums=1, dirslots=32, nodirhook=1, sizeblocks=0), lmax=3, budget_s=600),
        H("nfs.VerifC02Names", covers=("created", "removed", "renamed", "refused", "end"), q=dict(STEPQ, inums=1, preentries=1), t=dict(STEPQ, inums=1, preentries=1), lmax=3, budget_s=900, budget_s_t=3000),
    ],
}

PROPS["C05"] = {
    "level": "model_checking",
    "explanation": "inductive steps from an arbitrary valid state: (1) every mutating RPC with C04's post-state clauses (a block no longer pointed to is unmarked, a block marked by the request is pointed to, inode bitmap = live inodes, an object that lost its only name is freed) plus agreement of the in-memory block and inode allocators with the on-disk bitmaps at a solver-chosen bit after every request, successful or not; (2) DoShrink from every pending extent within the bound, incl. extents reaching into the indirect block with holes: freeing completes and every block held beyond the size (slots, index block, entries) is unmarked on disk and in memory; (3) MakeNfs on an arbitrary disk builds allocators equal to the bitmaps; (4) the real first-fit allocator of go-journal satisfies the contract used by the step harnesses",
    "assumptions": JOURNAL + ["pre-state satisfies Inv (DESIGN.md B.4) including bitmap agreement and link counts", "representative inode/block numbers (bound R_addr)", "the global statement (marked = reachable from the root; free space returns to its initial value) follows from the per-inode clauses by induction over requests and is argued, not checked", "crash states are states between transactions (C01); a half-freed object met by a later request is the pending-shrink pre-state"],
    "outside": ["entries of the double-indirect tree (only its root slot is followed)", "commits refused by the journal (transactions above 511 blocks): then the in-memory allocators and the disk bitmaps can differ until a restart (observed by reading fstxn.commitWait, not reachable within B_bytes)", "histories (induction over the step)", "the background shrinker thread racing with requests (C03/C14)"],
    "harnesses": _steps("p05", (1, 2, 3), covers_by={2: ("w5-create", "w5-remove"), 3: ("w5-rename",)}, q_by={2: {"pendingshrink": 1}}, t_by={1: {"inums": 1, "pendingshrink": 0, "namelens": 2}, 2: {"inums": 1, "namelens": 2}, 3: {"inums": 1, "pendingshrink": 0, "namelens": 2}}) + [
        H("nfs.VerifC05Shrink", covers=("end", "entry-freed", "entry-hole"), q=dict(STEPQ, inums=1, bblocks=2, sizeblocks=0), t=dict(STEPQ, inums=1, bblocks=2, sizeblocks=0, c05ext=1), lmax=3, budget_s=400, budget_s_t=1500),
        H("nfs.VerifC05Restart", covers=("end",), q=dict(STEPQ, inums=1), t=dict(STEPQ, inums=1), budget_s=200),
        {"fn": "github.com/mit-pdos/go-journal/alloc.VerifAllocContract", "covers": ["end", "full", "allocated"], "q": {"allocbytes": 2, "realalloc": 1}, "t": {"allocbytes": 2, "realalloc": 1}, "budget_s": 300, "budget_s_t": 900},
    ],
}

NOT_APPLICABLE = {
}


def is_monitor_label(label):
    return label.startswith("mon:")


def items(prop, tier, seed):
    import os, re
    only = os.environ.get("VERIF_ONLY")
    out = []
    for h in PROPS[prop]["harnesses"]:
        if only and not re.search(only, h["fn"]):
            continue
        if os.environ.get("VERIF_TAG") and not re.search(os.environ["VERIF_TAG"], h.get("tag", "")):
            continue
        params = h["q"] if tier == "quick" else (h["t"] if h["t"] is not None else None)
        if params is None:
            continue
        it = {"fn": h["fn"], "covers": h["covers"], "params": dict(params), "tag": h.get("tag", "")}
        for k in ("unwind", "lmax", "timeout_ms", "budget_s", "max_paths", "max_steps"):
            pass
        for k in ("unwind", "lmax", "timeout_ms", "budget_s", "max_paths", "max_steps"):
            kk = k + ("_t" if tier == "thorough" and (k + "_t") in h else "")
            if kk in h:
                it[k] = h[kk]
        if os.environ.get("VERIF_BUDGET"):
            it["budget_s"] = int(os.environ["VERIF_BUDGET"])
        it["params"]["seed"] = seed
        out.append(it)
    return out


def bounds(prop, tier):
    b = {}
    for it in items(prop, tier, 0):
        p = dict(it["params"])
        p.pop("seed", None)
        for k in ("unwind", "lmax"):
            if k in it:
                p[k] = it[k]
        b[it["fn"].split("/")[-1] + (":" + it["tag"] if it["tag"] else "")] = p
    return b


def ensure_modfile(root, repo, env):
    """go-journal in-package harnesses: verbatim copy of the module-cache source + generated go.mod with a replace."""
    tp = os.path.join(root, "third_party", "go-journal")
    src = subprocess.run(["go", "list", "-m", "-f", "{{.Dir}}", "github.com/mit-pdos/go-journal"], cwd=repo, env=env,
                         capture_output=True, text=True).stdout.strip()
    if os.path.isdir(tp) and subprocess.run(["diff", "-rq", src, tp], capture_output=True).returncode != 0:
        shutil.rmtree(tp)  # must be a verbatim copy of the module-cache source
    if not os.path.isdir(tp):
        os.makedirs(os.path.dirname(tp), exist_ok=True)
        shutil.copytree(src, tp)
        subprocess.run(["chmod", "-R", "u+w", tp])
    mf = os.path.join(root, "work", "gojournal.mod")
    os.makedirs(os.path.dirname(mf), exist_ok=True)
    txt = open(os.path.join(repo, "go.mod")).read()
    txt += "\nreplace github.com/mit-pdos/go-journal => %s\n" % tp
    open(mf, "w").write(txt)
    shutil.copy(os.path.join(repo, "go.sum"), os.path.join(root, "work", "gojournal.sum"))
    return mf
